#!/bin/bash
# Offline setup: overlay venv on /venv with crosshair-tool from the local wheelhouse.
set -e
cd "$(dirname "$0")"
if [ -x .venv/bin/python ] && .venv/bin/python -c "import crosshair, z3, pyglove" 2>/dev/null; then
  echo "setup: .venv already usable"; exit 0
fi
rm -rf .venv
/venv/bin/python -m venv .venv
SP=$(.venv/bin/python -c "import site; print(site.getsitepackages()[0])")
printf '/venv/lib/python3.12/site-packages\n/repo\n' > "$SP/verif_overlay.pth"
PIP_NO_INDEX=1 .venv/bin/pip install -q --no-index --find-links /opt/veriftools/wheels crosshair-tool
.venv/bin/python -c "import crosshair, z3, pyglove; print('setup ok', crosshair.__version__ if hasattr(crosshair,'__version__') else '', z3.get_version_string(), pyglove.__file__)"
