"""C08 — write protection: sealed / treat-as-sealed / accessor-protected values cannot be changed.

Reference permission function (from the documentation): the innermost scoped override wins
unless it is None, then the per-object flag decides; accessor operations additionally need
accessor-writability; rebind never depends on accessor-writability.
"""
import contextlib

import pyglove as pg
from engine.chx import Assume, Violation, reach, untraced, concretize
from harness import treeops as T

PROPERTY = 'C08'
LEVEL = 'model_checking'
REACH_POINTS = ['refused', 'allowed', 'scoped.refused', 'scoped.allowed', 'seal_deep']

ACCESSOR_OPS = {'setitem', 'setattr', 'delitem', 'delattr', 'set_slice', 'del_slice'}
REBIND_OPS = {'rebind_idx', 'rebind_insert', 'rebind_missing', 'rebind_multi', 'rebind_key', 'rebind_kwargs', 'rebind_fn',
              'rebind_deep', 'rebind_deep2'}
SCOPE_VALUES = [None, True, False]     # selector 0 = no scope, 1..3 = these


def _snapshot(root):
  nodes = T.nodes_of(root)
  return (T.snap(root), [(id(n), n.is_sealed, n.accessor_writable) for n in nodes])


def _obj_accessor_writable(node):
  if isinstance(node, pg.Object):
    return node.allow_symbolic_assignment
  return node.accessor_writable


def _scope_stack(sel_seal, sel_acc):
  st = contextlib.ExitStack()
  for s in sel_seal:
    if s != 0:
      st.enter_context(pg.as_sealed(SCOPE_VALUES[s - 1]))
  for s in sel_acc:
    if s != 0:
      st.enter_context(pg.allow_writable_accessors(SCOPE_VALUES[s - 1]))
  return st


def _effective(selectors, object_flag):
  """Documented nesting rule: the immediate (innermost) scope is effective; None defers to the object."""
  inner = 0
  for s in selectors:
    if s != 0:
      inner = s
  if inner == 0:
    return object_flag
  v = SCOPE_VALUES[inner - 1]
  return object_flag if v is None else v


def _check_one(params, root, p, t, i, sealed, acc_off, sel_seal, sel_acc, w, tagp, seal_under=0):
  nodes = T.nodes_of(root)
  if not (0 <= p < len(nodes) and 0 <= t < len(nodes)):
    raise Assume()
  for s in tuple(sel_seal) + tuple(sel_acc):
    if not 0 <= s <= 3:
      raise Assume()
  op = params['op']
  prot = nodes[p]
  if sealed:
    # the seal() call itself may be made inside a scoped override (which must not change what it does to the object)
    with (pg.as_sealed(SCOPE_VALUES[seal_under - 1]) if seal_under else contextlib.nullcontext()):
      prot.seal(True)
    reach('seal_deep')
    for n in T.nodes_of(prot):
      if not n.is_sealed:
        return Violation('seal_does_not_reach_descendant', str(n.sym_path))
  if acc_off:
    if isinstance(prot, pg.Object):
      raise Assume()
    prot.set_accessor_writable(False)
  # the container whose content the op changes
  target = nodes[t]
  if op in T.ROOT_OPS and t == 0:
    raise Assume()
  tgt_sealed = _effective(sel_seal, target.is_sealed)
  tgt_writable = _effective(sel_acc, _obj_accessor_writable(target))
  must_refuse = tgt_sealed or (op in ACCESSOR_OPS and not tgt_writable)
  may_refuse_for_accessor = (op not in REBIND_OPS) and not tgt_writable
  if op == 'rebind_deep2' and not must_refuse:
    other = nodes[0]
    if _effective(sel_seal, other.is_sealed):
      raise Assume()          # the second path of the batch addresses another (possibly sealed) container
  val = w if params.get('vkind', 'leaf') == 'leaf' else pg.Dict(n=pg.List([w]))
  before = _snapshot(root)
  raised = None
  with _scope_stack(sel_seal, sel_acc):
    try:
      T.apply_op(op, root, nodes, t, i, val, w)
    except pg.WritePermissionError:
      raised = 'perm'
    except T.EXPECTED_ERRORS:
      raised = 'other'
  cls = type(target).__name__ if not isinstance(target, pg.Object) else 'Object'
  if must_refuse:
    reach(tagp + 'refused')
    if raised != 'perm':
      if raised == 'other':
        # a different refusal (e.g. schema) is acceptable only if nothing changed
        if _snapshot(root) != before:
          return Violation(f'protected_value_changed:{op}:{cls}', f'target {target.sym_path} sealed={tgt_sealed} writable={tgt_writable}')
        return None
      if _snapshot(root) == before and T.inv(root) is None:
        return None     # the call would not have changed anything (e.g. pop of an absent key with a default)
      return Violation(f'write_not_refused:{op}:{cls}:{"sealed" if tgt_sealed else "accessor"}',
                       f'target {target.sym_path}; scopes seal={sel_seal} acc={sel_acc}')
    after = _snapshot(root)
    if after != before:
      return Violation(f'refused_write_changed_tree:{op}:{cls}', f'target {target.sym_path}')
    r = T.inv(root)
    if r is not None:
      return Violation(f'refused_write_broke_tree:{op}:{cls}:{r[0]}', r[1])
  else:
    reach(tagp + 'allowed')
    if raised == 'perm' and not may_refuse_for_accessor:
      return Violation(f'allowed_write_refused:{op}:{cls}', f'target {target.sym_path}; scopes seal={sel_seal} acc={sel_acc} '
                       f'object sealed={target.is_sealed}')
  if sealed:
    with (pg.as_sealed(SCOPE_VALUES[seal_under - 1]) if seal_under else contextlib.nullcontext()):
      prot.seal(False)
    for n in T.nodes_of(prot):
      if n.is_sealed:
        return Violation('unseal_does_not_reach_descendant', str(n.sym_path))
  return None


_ARGS = [('v0', 'int'), ('v1', 'int'), ('v2', 'int'), ('v3', 'int'), ('p', 'int'), ('t', 'int'), ('i', 'int'),
         ('sealed', 'bool'), ('acc_off', 'bool'), ('w', 'int'), ('su', 'int')]


def _select_target(params, t, i):
  """Lazy concretization of the target node and index/key selector (only for applicable (op, node kind) pairs)."""
  with untraced():
    nodes = T.nodes_of(T.SKELETONS[params['skel']]((1, 2, 3, 4)))
  t = concretize(t, range(len(nodes)))
  if not T.applicable(params['op'], nodes[t], t):
    raise Assume()
  n = T.fanout(nodes[t])
  return t, concretize(i, range(-n - 1, n + 2)), len(nodes)


def h_flags(params, v0, v1, v2, v3, p, t, i, sealed, acc_off, w, su=0):
  """Selectors are solver decisions made concrete by branching; the guarded call and the oracle run natively."""
  sealed, acc_off = bool(sealed), bool(acc_off)
  if not (sealed or acc_off):
    raise Assume()
  su = concretize(su, params.get('su', (0, 1, 2, 3))) if sealed else 0
  t, i, nn = _select_target(params, t, i)
  p = concretize(p, range(nn))
  with untraced():
    root = T.SKELETONS[params['skel']]((1, 2, 3, 4))
    return _check_one(params, root, p, t, i, sealed, acc_off, (0, 0), (0, 0), 50, '', su)


def h_scopes(params, v0, v1, v2, v3, t, i, sealed, acc_off, s1, s2, a1, a2, w):
  sealed, acc_off = bool(sealed), bool(acc_off)
  t, i, nn = _select_target(params, t, i)
  s1, s2, a1, a2 = (concretize(x, range(4)) for x in (s1, s2, a1, a2))
  with untraced():
    root = T.SKELETONS[params['skel']]((1, 2, 3, 4))
    return _check_one(params, root, t, t, i, sealed, acc_off, (s1, s2), (a1, a2), 50, 'scoped.')


# operations after which the quick tier also makes the seal()/unseal calls inside an as_sealed scope
SEAL_UNDER_OPS = ('setitem', 'setattr', 'append', 'rebind_key', 'delitem')
SCOPE_OPS = ['setitem', 'setattr', 'delitem', 'append', 'update', 'rebind_key', 'rebind_idx', 'rebind_deep', 'pop', 'iadd', 'ior',
             'set_slice', 'clear', 'insert']


def shards(tier, seed):
  quick = tier == 'quick'
  out = []
  b = 40 if quick else 400
  skels = ['list', 'dict', 'obj', 'mixed'] if quick else list(T.SKELETONS)
  for skel in skels:
    for op in T.MUTATING:
      if not T.op_fits(op, skel):
        continue
      out.append(dict(name=f'flags:{skel}:{op}', fn='h_flags', params=dict(skel=skel, op=op, su=((0, 2) if op in SEAL_UNDER_OPS else (0,)) if quick else (0, 1, 2, 3)),
                      args=_ARGS, budget_s=b, per_path_s=15))
      if not quick:
        out.append(dict(name=f'flags_subtree:{skel}:{op}', fn='h_flags', params=dict(skel=skel, op=op, vkind='subtree'),
                        args=_ARGS, budget_s=b, per_path_s=15))
  sargs = [('v0', 'int'), ('v1', 'int'), ('v2', 'int'), ('v3', 'int'), ('t', 'int'), ('i', 'int'), ('sealed', 'bool'),
           ('acc_off', 'bool'), ('s1', 'int'), ('s2', 'int'), ('a1', 'int'), ('a2', 'int'), ('w', 'int')]
  for skel in (['dict', 'obj'] if quick else skels):
    for op in (SCOPE_OPS if quick else T.MUTATING):
      if not T.op_fits(op, skel):
        continue
      out.append(dict(name=f'scopes:{skel}:{op}', fn='h_scopes', params=dict(skel=skel, op=op), args=sargs,
                      budget_s=b, per_path_s=15))
  return out


META = dict(
    rule='Shard = (skeleton tree, mutating operation); symbolic: protected node, target node, index/key selector, '
         'sealed / accessor-writable bits, two nested as_sealed and two nested allow_writable_accessors scopes '
         '(absent/None/True/False each), leaf ints.',
    bounds=['skeleton trees: ' + ', '.join(T.SKELETONS), 'operations: ' + ', '.join(T.MUTATING),
            'scope nesting depth <= 2 per manager', 'inserted value: leaf int (quick) / also a fresh subtree (thorough)'],
    stubs=['CrossHair format() of symbolic non-str values returns "<sym>"'],
    outside_claim=['scope nesting deeper than 2', 'methods that are neither accessors nor rebind (append, pop, update, ...) '
                   'may or may not honour accessor-writability: only the sealed rule is asserted for them'],
    assumptions=['reference permission rule: innermost non-None scope value, else the object flag (pg.as_sealed / '
                 'pg.allow_writable_accessors documentation)'],
)
