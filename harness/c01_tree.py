"""C01 — symbolic tree integrity after any public operation (one inductive step from every
constructor-built skeleton tree, plus depth-2 histories)."""
import copy

import pyglove as pg
from engine.chx import Assume, Violation, reach, untraced, concretize
from harness import treeops as T

PROPERTY = 'C01'
LEVEL = 'model_checking'
REACH_POINTS = ['ctor', 'step.applied', 'step.raised', 'copy', 'step2.applied']


def _value(kind_idx, root, nodes, j, w):
  if not 0 <= kind_idx < len(T.VALUE_KINDS):
    raise Assume()
  kind = T.VALUE_KINDS[kind_idx]
  others = []
  if kind == 'foreign':
    other = pg.Dict(host=pg.List([pg.Dict(f=w)]))
    others.append(other)
    return kind, other.host[0], others
  return kind, T.make_value(kind, root, nodes, j, w), others


def _check(root, old_nodes, others, tag, extra=None):
  r = T.inv(root)
  if r is not None:
    return Violation(f'{tag}:{r[0]}', r[1])
  r = T.detached_ok(old_nodes, root)
  if r is not None:
    return Violation(f'{tag}:{r[0]}', r[1])
  for o in others:
    r = T.inv(o)
    if r is not None:
      return Violation(f'{tag}:other_tree:{r[0]}', r[1])
  if extra is not None and isinstance(extra, pg.Symbolic) and extra.sym_parent is None:
    r = T.inv(extra)
    if r is not None:
      return Violation(f'{tag}:returned_value:{r[0]}', r[1])
  return None


def _step(params, op, root, t, i, vk, j, w, w2, tag):
  nodes = T.nodes_of(root)
  kind, val, others = _value(vk, root, nodes, j, w)
  if kind == 'existing' and (j == t):
    raise Assume()
  res = {}
  outcome = 'ok'
  try:
    if params.get('notify', True):
      res = T.apply_op(op, root, nodes, t, i, val, w2)
    else:
      with pg.notify_on_change(False):
        res = T.apply_op(op, root, nodes, t, i, val, w2)
    reach(tag + '.applied')
  except T.EXPECTED_ERRORS:
    reach('step.raised')
    outcome = 'raised'
  # signature: op, whether the inserted value was already part of a tree, whether the call raised,
  # whether notifications were disabled (the failure kind is appended by _check).
  sig = f'{op}:{"aliased" if kind in ("existing", "foreign") else "fresh"}:{outcome}'
  if not params.get('notify', True):
    sig += ':nonotify'
  viol = _check(root, nodes, others, sig, res.get('result'))
  return viol


_ARGS = [('v0', 'int'), ('v1', 'int'), ('v2', 'int'), ('v3', 'int'), ('t', 'int'), ('i', 'int'), ('vk', 'int'),
         ('j', 'int'), ('w', 'int'), ('w2', 'int')]


NODES_MAX = 14


def h_step(params, v0, v1, v2, v3, t, i, vk, j, w, w2):
  """Selectors are solver decisions made concrete by branching; the operation and the invariant run natively
  (leaf values play no role in tree integrity: fixed constants)."""
  t, i, vk, j = _select(params['skel'], params['op'], t, i, vk, j, params.get('kinds'))
  with untraced():
    return _step_body(params, 1, 2, 3, 4, t, i, vk, j, 50, 60)


def _select(skel, op, t, i, vk, j, kinds=None):
  """Lazy concretization: the target first; selectors of inapplicable (op, node kind) pairs are never branched on."""
  with untraced():
    nodes = T.nodes_of(T.SKELETONS[skel]((1, 2, 3, 4)))
  t = concretize(t, range(len(nodes)))
  if not T.applicable(op, nodes[t], t):
    raise Assume()
  n = T.fanout(nodes[t])
  i = concretize(i, range(-n - 2, n + 3))
  vk = concretize(vk, kinds if kinds is not None else range(len(T.VALUE_KINDS)))
  j = concretize(j, range(1, len(nodes))) if T.VALUE_KINDS[vk] == 'existing' else 0
  return t, i, vk, j


def _step_body(params, v0, v1, v2, v3, t, i, vk, j, w, w2):
  root = T.SKELETONS[params['skel']]((v0, v1, v2, v3))
  if T.inv(root) is not None:
    return Violation('base:constructor_built_tree_violates_invariant', str(T.inv(root)))
  if params.get('kinds') is not None and vk not in params['kinds']:
    raise Assume()
  return _step(params, params['op'], root, t, i, vk, j, w, w2, 'step')


def h_step2(params, v0, v1, v2, v3, t, i, vk, j, w, w2, t2, i2, vk2):
  """Depth-2 history; both steps select lazily (target, then index/value kind for applicable pairs only)."""
  t, i, vk, _ = _select(params['skel'], params['op'], t, i, vk, 0, (0, 1))
  with untraced():
    root = T.SKELETONS[params['skel']]((1, 2, 3, 4))
    if _step(params, params['op'], root, t, i, vk, 0, 50, 60, 'step') is not None:
      return None        # reported by h_step; histories stop at the first violation
    nodes2 = T.nodes_of(root)
  t2 = concretize(t2, range(len(nodes2)))
  op2 = params['op2']
  if not T.applicable(op2, nodes2[t2], t2):
    raise Assume()
  n2 = T.fanout(nodes2[t2])
  i2 = concretize(i2, range(-n2 - 2, n2 + 3))
  vk2 = concretize(vk2, (0, 1, 2))
  jj = concretize(j, range(1, len(nodes2))) if vk2 == 2 else 0
  with untraced():
    viol = _step(params, op2, root, t2, i2, vk2, jj, 60, 50, 'step2')
    if viol is not None:
      # the tree satisfied the invariant after the first step: the violation belongs to the second operation alone
      # (same signature as the one-step harness; the history goes into the detail)
      viol.detail = f'after {params["op"]}: ' + str(viol.detail)
    return viol


COPY_KINDS = ['clone', 'clone_deep', 'copy', 'deepcopy', 'json', 'json_str', 'clone_override', 'add', 'mul', 'list_copy',
              'dict_copy']


def h_copy(params, v0, v1, v2, v3, t, ck, w):
  t, ck = concretize(t, range(NODES_MAX)), concretize(ck, range(len(COPY_KINDS)))
  with untraced():
    return _copy_body(params, 1, 2, 3, 4, t, ck, 50)


def _copy_body(params, v0, v1, v2, v3, t, ck, w):
  root = T.SKELETONS[params['skel']]((v0, v1, v2, v3))
  nodes = T.nodes_of(root)
  if not 0 <= t < len(nodes):
    raise Assume()
  node = nodes[t]
  if not 0 <= ck < len(COPY_KINDS):
    raise Assume()
  kind = COPY_KINDS[ck]
  if kind == 'clone':
    c = node.clone()
  elif kind == 'clone_deep':
    c = node.clone(deep=True)
  elif kind == 'copy':
    c = copy.copy(node)
  elif kind == 'deepcopy':
    c = copy.deepcopy(node)
  elif kind in ('json', 'json_str'):
    try:
      c = pg.from_json(pg.to_json(node)) if kind == 'json' else pg.from_json_str(pg.to_json_str(node))
    except TypeError:
      raise Assume()       # documented: references (pg.Ref) cannot be serialized
  elif kind == 'clone_override':
    keys = list(node.sym_keys())
    if not keys:
      raise Assume()
    try:
      c = node.clone(override={keys[0]: w})
    except T.EXPECTED_ERRORS:
      raise Assume()
  elif kind == 'add':
    if not isinstance(node, pg.List):
      raise Assume()
    c = node + [pg.Dict(z=w)]
  elif kind == 'mul':
    if not isinstance(node, pg.List):
      raise Assume()
    c = node * 2
  elif kind == 'list_copy':
    if not isinstance(node, pg.List):
      raise Assume()
    c = node.copy()
  elif kind == 'dict_copy':
    if not isinstance(node, pg.Dict):
      raise Assume()
    c = node.copy()
  elif kind == 'or':
    if not isinstance(node, pg.Dict):
      raise Assume()
    c = node | {'z': pg.Dict(zz=w)}
  reach('copy')
  if not isinstance(c, pg.Symbolic):
    return Violation(f'copy:{kind}:not_symbolic', repr(type(c)))
  if c.sym_parent is not None:
    return Violation(f'copy:{kind}:copy_has_parent', str(c.sym_path))
  if len(c.sym_path):
    return Violation(f'copy:{kind}:copy_has_path', str(c.sym_path))
  r = T.inv(c)
  if r is not None:
    return Violation(f'copy:{kind}:copy:{r[0]}', r[1])
  r = T.inv(root)
  if r is not None:
    return Violation(f'copy:{kind}:original:{r[0]}', r[1])
  orig_ids = {id(n) for n in nodes}
  for n in T.nodes_of(c):
    if id(n) in orig_ids:
      return Violation(f'copy:{kind}:shares_symbolic_node', str(n.sym_path))
  return None


class Two(pg.Object):
  x: pg.typing.Any() = None
  y: pg.typing.Any() = None


@pg.functor
def two_fn(x, y=None):
  return x


NODE_KINDS = ['dict', 'list', 'object']
CTOR_KINDS = ['dict_kwargs', 'dict_literal', 'list', 'object_kwargs', 'object_positional', 'object_and_nested_list',
              'object_and_nested_dict', 'functor', 'object_partial', 'dict_and_nested_list', 'list_nested', 'object_clone_override',
              'from_json_like']


def h_ctor(params, nk, ck, attached):
  """Construction: the same node object given for two places of a new container (the node fresh, or already part of
  another tree). The constructed tree must satisfy the invariant: one node object never appears in two places."""
  nk, ck, attached = concretize(nk, range(len(NODE_KINDS))), concretize(ck, range(len(CTOR_KINDS))), bool(attached)
  with untraced():
    node = {'dict': lambda: pg.Dict(k=pg.Dict(kk=1)), 'list': lambda: pg.List([pg.Dict(kk=1)]),
            'object': lambda: T.Obj(d=pg.Dict(kk=1))}[NODE_KINDS[nk]]()
    holder = pg.Dict(h=node) if attached else None
    n = holder.h if attached else node
    kind = CTOR_KINDS[ck]
    if kind == 'dict_kwargs':
      root = pg.Dict(x=n, y=n)
    elif kind == 'dict_literal':
      root = pg.Dict({'x': n, 'y': n})
    elif kind == 'list':
      root = pg.List([n, n])
    elif kind == 'object_kwargs':
      root = Two(x=n, y=n)
    elif kind == 'object_positional':
      root = Two(n, n)
    elif kind == 'object_and_nested_list':
      root = Two(x=n, y=[n])
    elif kind == 'object_and_nested_dict':
      root = Two(x=n, y={'z': n})
    elif kind == 'functor':
      root = two_fn(n, n)
    elif kind == 'object_partial':
      root = Two.partial(x=n, y=n)
    elif kind == 'dict_and_nested_list':
      root = pg.Dict(x=n, y=[n])
    elif kind == 'list_nested':
      root = pg.List([n, [n], {'z': n}])
    elif kind == 'object_clone_override':
      root = Two(x=1).clone(override=dict(x=n, y=n))
    else:
      root = pg.from_json(pg.to_json(pg.Dict(x=n, y=n)))
    reach('ctor')
    sig = f'ctor:{kind}:{"attached" if attached else "fresh"}'
    r = T.inv(root)
    if r is not None:
      return Violation(f'{sig}:{r[0]}', f'{NODE_KINDS[nk]} node: {r[1]}')
    if holder is not None:
      r = T.inv(holder)
      if r is not None:
        return Violation(f'{sig}:source_tree:{r[0]}', r[1])
  return None


CORE_OPS = ['setitem', 'delitem', 'insert', 'pop', 'reverse', 'set_slice', 'iadd', 'rebind_deep', 'rebind_multi',
            'setattr', 'update', 'rebind_fn']


def shards(tier, seed):
  quick = tier == 'quick'
  out = []
  b = 40 if quick else 400
  skels = list(T.SKELETONS)
  for skel in skels:
    for op in T.ALL_OPS:
      if not T.op_fits(op, skel):
        continue
      if quick and skel in ('mixed', 'flat') and op not in CORE_OPS + ['rebind_multi_far']:
        continue
      out.append(dict(name=f'step:{skel}:{op}', fn='h_step', params=dict(skel=skel, op=op), args=_ARGS,
                      budget_s=b, per_path_s=15))
    out.append(dict(name=f'copy:{skel}', fn='h_copy', params=dict(skel=skel),
                    args=[('v0', 'int'), ('v1', 'int'), ('v2', 'int'), ('v3', 'int'), ('t', 'int'), ('ck', 'int'), ('w', 'int')],
                    budget_s=b, per_path_s=15))
  out.append(dict(name='ctor', fn='h_ctor', params={}, args=[('nk', 'int'), ('ck', 'int'), ('attached', 'bool')], budget_s=b, per_path_s=15))
  # notification-disabled scope (list re-indexing happens inside change notification)
  for skel in (['list', 'obj'] if quick else skels):
    for op in (['insert', 'delitem', 'setitem', 'rebind_insert', 'set_slice', 'pop'] if quick else T.ALL_OPS):
      if not T.op_fits(op, skel):
        continue
      out.append(dict(name=f'step_nonotify:{skel}:{op}', fn='h_step', params=dict(skel=skel, op=op, notify=False, kinds=[0, 1]),
                      args=_ARGS, budget_s=b, per_path_s=15))
  import random as _r
  rnd = _r.Random(seed)
  pairs = [(a, c) for a in CORE_OPS for c in CORE_OPS]
  if quick:
    pairs = rnd.sample(pairs, 10)
  for a, c in pairs:
    for skel in (['list'] if quick else ['list', 'dict', 'obj']):
      out.append(dict(name=f'step2:{skel}:{a}>{c}', fn='h_step2', params=dict(skel=skel, op=a, op2=c),
                      args=_ARGS + [('t2', 'int'), ('i2', 'int'), ('vk2', 'int')], budget_s=b, per_path_s=15))
  return out


META = dict(
    rule='Shard = (skeleton tree, operation kind[, second operation]); symbolic: target node, index/key selector, '
         'inserted value kind (leaf / fresh subtree / plain containers / existing node of the same tree / node of '
         'another tree), which existing node, leaf ints.',
    bounds=['skeleton trees: ' + ', '.join(T.SKELETONS) + ' (depth <= 3, <= 9 symbolic nodes)',
            'operations: ' + ', '.join(T.ALL_OPS), 'copy kinds: ' + ', '.join(COPY_KINDS),
            'indices within [-len-1, len+1]', 'histories: one step from every skeleton; depth 2 over core ops'],
    stubs=['CrossHair format() of symbolic non-str values returns "<sym>"'],
    outside_claim=['trees beyond the skeleton family', 'custom pg.Symbolic subclasses, ClassWrapper/Functor nodes',
                   'histories deeper than 2 (covered by the inductive-step argument only)'],
    assumptions=['the invariant is checked through the public traversal API (sym_items/sym_parent/sym_path/KeyPath.query)'],
)
