"""C19 — permission-gated code execution.

Engine C: the gating table is extracted from the AST of `_CodeValidator.generic_visit` in
/repo on every run and turned into a z3 formula over (ast node class, 8-bit permission set);
the negated property is asked of z3 and every model is replayed through the real `parse`.
Engine A: symbolic (parent context, child construct, permission bits) through the real
`parse`/`evaluate`; scope rule with symbolic nested scopes; execution fidelity on program
templates with symbolic constants against plain exec/eval.
"""
import ast
import contextlib
import inspect
import io
import os
import sys
import time

import pyglove as pg
from pyglove.core.coding import errors as pg_errors
from pyglove.core.coding import execution as pg_exec
from pyglove.core.coding import parsing as pg_parsing
from pyglove.core.coding import permissions as pg_perm
from engine.chx import Assume, Violation, reach, untraced, concretize

PROPERTY = 'C19'
LEVEL = 'model_checking'
REACH_POINTS = ['gate.all', 'nested.refused', 'nested.allowed', 'scope', 'scope.seen_before', 'fidelity.ok', 'fidelity.error']

P = pg_perm.CodePermission
FLAGS = ['ASSIGN', 'CONDITION', 'LOOP', 'CALL', 'EXCEPTION', 'CLASS_DEFINITION', 'FUNCTION_DEFINITION', 'IMPORT']

# Reference table written from the language reference: construct kind of every ast node class that is a
# construct named by the property. Node classes not listed require no permission.
REQUIRED = {
    'Assign': 'ASSIGN', 'AugAssign': 'ASSIGN', 'AnnAssign': 'ASSIGN', 'NamedExpr': 'ASSIGN',
    'If': 'CONDITION', 'IfExp': 'CONDITION', 'Match': 'CONDITION',
    'For': 'LOOP', 'While': 'LOOP', 'AsyncFor': 'LOOP', 'ListComp': 'LOOP', 'SetComp': 'LOOP', 'DictComp': 'LOOP',
    'GeneratorExp': 'LOOP',
    'Call': 'CALL',
    'Try': 'EXCEPTION', 'TryStar': 'EXCEPTION', 'Raise': 'EXCEPTION', 'Assert': 'EXCEPTION',
    'ClassDef': 'CLASS_DEFINITION',
    'FunctionDef': 'FUNCTION_DEFINITION', 'AsyncFunctionDef': 'FUNCTION_DEFINITION', 'Lambda': 'FUNCTION_DEFINITION',
    'Return': 'FUNCTION_DEFINITION', 'Yield': 'FUNCTION_DEFINITION', 'YieldFrom': 'FUNCTION_DEFINITION',
    'Import': 'IMPORT', 'ImportFrom': 'IMPORT',
}

# Minimal program containing each construct (other constructs it needs are granted in the replay).
SNIPPET = {
    'Assign': 'x = 1', 'AugAssign': 'x = 1\nx += 1', 'AnnAssign': 'x: int = 1', 'NamedExpr': '(y := 1)',
    'If': 'if 1:\n  pass', 'IfExp': '1 if 1 else 2', 'Match': 'match 1:\n  case _:\n    pass',
    'For': 'for i in ():\n  pass', 'While': 'while 0:\n  pass',
    'AsyncFor': 'async def f():\n  async for i in x:\n    pass',
    'ListComp': '[i for i in ()]', 'SetComp': '{i for i in ()}', 'DictComp': '{i: i for i in ()}',
    'GeneratorExp': '(i for i in ())', 'Call': 'abs(1)',
    'Try': 'try:\n  pass\nexcept Exception:\n  pass', 'TryStar': 'try:\n  pass\nexcept* Exception:\n  pass',
    'Raise': 'raise ValueError()', 'Assert': 'assert 1',
    'ClassDef': 'class A:\n  pass', 'FunctionDef': 'def f():\n  pass', 'AsyncFunctionDef': 'async def f():\n  pass',
    'Lambda': 'lambda: 1', 'Return': 'def f():\n  return 1', 'Yield': 'def f():\n  yield 1',
    'YieldFrom': 'def f():\n  yield from ()', 'Import': 'import os', 'ImportFrom': 'from os import path',
}
NODES = sorted(SNIPPET)


def flag_of(name):
  return getattr(P, name)


def perm_from_bits(bits):
  p = P(0)
  for name, b in zip(FLAGS, bits):
    if b:
      p = p | flag_of(name)
  return p


def _needs(code):
  """Permissions a snippet needs according to the reference table (all constructs it contains)."""
  need = set()
  for n in ast.walk(ast.parse(code)):
    r = REQUIRED.get(type(n).__name__)
    if r:
      need.add(r)
  return need


# ---- Engine C ---------------------------------------------------------------------------

def extract_table():
  """[(flag name, [node class names])] from the source of _CodeValidator.generic_visit; structural checks."""
  src_file = inspect.getsourcefile(pg_parsing)
  tree = ast.parse(open(src_file).read())
  cls = [n for n in tree.body if isinstance(n, ast.ClassDef) and n.name == '_CodeValidator']
  if len(cls) != 1:
    raise RuntimeError('cannot find _CodeValidator')
  cls = cls[0]
  methods = {n.name: n for n in cls.body if isinstance(n, ast.FunctionDef)}
  overrides = [m for m in methods if m.startswith('visit')]
  problems = []
  if overrides:
    problems.append(f'validator defines per-class visitors {overrides}: children of those nodes may be skipped')
  gv = methods.get('generic_visit')
  if gv is None:
    raise RuntimeError('no generic_visit')
  rows = []
  recurses = False
  for st in gv.body:
    if isinstance(st, ast.Expr) and isinstance(st.value, ast.Constant):
      continue       # docstring
    if not (isinstance(st, ast.Expr) and isinstance(st.value, ast.Call)):
      raise RuntimeError(f'unrecognised statement in generic_visit at line {st.lineno}: {ast.dump(st)[:80]}')
    call = st.value
    fn = call.func
    if isinstance(fn, ast.Attribute) and fn.attr == 'verify':
      flag = call.args[1]
      if not (isinstance(flag, ast.Attribute) and flag.attr in FLAGS):
        raise RuntimeError(f'unrecognised permission flag at line {st.lineno}')
      types = call.args[2]
      names = []
      elts = types.elts if isinstance(types, (ast.Tuple, ast.List)) else [types]
      for e in elts:
        if isinstance(e, ast.Attribute) and isinstance(e.value, ast.Name) and e.value.id == 'ast':
          names.append(e.attr)
        elif (isinstance(e, ast.Call) and isinstance(e.func, ast.Name) and e.func.id == 'getattr'
              and isinstance(e.args[1], ast.Constant)):
          if hasattr(ast, e.args[1].value):
            names.append(e.args[1].value)
        else:
          raise RuntimeError(f'unrecognised node type expression at line {e.lineno}')
      rows.append((flag.attr, names))
    elif (isinstance(fn, ast.Attribute) and fn.attr == 'generic_visit' and isinstance(fn.value, ast.Call)
          and isinstance(fn.value.func, ast.Name) and fn.value.func.id == 'super'):
      recurses = st is gv.body[-1]
    else:
      raise RuntimeError(f'unrecognised call in generic_visit at line {st.lineno}')
  if not recurses:
    problems.append('generic_visit does not end with an unconditional super().generic_visit(node)')
  return rows, problems


def pre(tier, seed):
  import z3
  t0 = time.time()
  rows, problems = extract_table()
  classes = sorted(n for n in dir(ast) if isinstance(getattr(ast, n), type) and issubclass(getattr(ast, n), ast.AST)
                   and not getattr(ast, n).__subclasses__())
  idx = {c: i for i, c in enumerate(classes)}
  N = z3.Int('N')
  perm = z3.BitVec('perm', 8)
  bit = {f: 1 << i for i, f in enumerate(FLAGS)}

  def is_instance(names):
    members = [c for c in classes if any(issubclass(getattr(ast, c), getattr(ast, n)) for n in names)]
    return z3.Or([N == idx[c] for c in members]) if members else z3.BoolVal(False)
  refused = z3.Or([z3.And(is_instance(names), (perm & bit[flag]) == 0) for flag, names in rows])
  required = z3.BitVecVal(0, 8)
  for c, f in REQUIRED.items():
    if c in idx:
      required = z3.If(N == idx[c], z3.BitVecVal(bit[f], 8), required)
  s = z3.Solver()
  s.add(N >= 0, N < len(classes))
  s.add((required & ~perm) != 0, z3.Not(refused))
  # canonical witness per node class: everything granted except the missing construct's flag
  s.add(perm == (~required & 0xFF))
  cex, queries, solver_s = [], 0, 0.0
  status = 'closed'
  while True:
    q0 = time.time()
    r = s.check()
    solver_s += time.time() - q0
    queries += 1
    if str(r) == 'unsat':
      break
    if str(r) != 'sat':
      status = 'unknown'
      break
    m = s.model()
    n = m[N].as_long()
    p = m[perm].as_long()
    cls_name = classes[n]
    cex.append(dict(fn='h_gate', params={}, args=[NODES.index(cls_name) if cls_name in NODES else -1, p],
                    sig=f'gate:ungated_construct:{cls_name}', detail=f'{cls_name} requires {REQUIRED[cls_name]} but no row of the '
                    f'validator table refuses it when that permission is missing (perm={p:#04x})'))
    s.add(N != n)
  out = [dict(name='z3:gating_table', fn='h_gate', params={}, closed=status == 'closed', paths=queries, confirmed=queries - len(cex),
              violated=len(cex), unknown=0, ignored=0, decisions=queries, solver_queries=queries, solver_s=round(solver_s, 3),
              cpu_s=round(time.time() - t0, 2), validated=0, mismatches=[], functions=['pyglove.core.coding.parsing._CodeValidator.generic_visit'],
              samples=[repr(dict(table=rows, node_classes=len(classes)))[:600]], reach={}, unknown_reasons={},
              counterexamples=cex)]
  if problems:
    out[0]['counterexamples'] = cex + [dict(fn='h_structure', params={}, args=[0], sig='gate:validator_not_context_free',
                                            detail='; '.join(problems))]
  return out


def h_structure(params, dummy):
  """Replay of the structural finding: re-extract and report."""
  rows, problems = extract_table()
  if problems:
    return Violation('gate:validator_not_context_free', '; '.join(problems))
  return None


def _refused(code, perm):
  try:
    pg_parsing.parse(code, perm)
    return False
  except pg_errors.CodeError:
    return True


def h_gate(params, nidx, perm_int):
  """Replay of an Engine C model: the minimal program with the construct, parsed by the real `parse`."""
  if not 0 <= nidx < len(NODES):
    raise Assume()
  name = NODES[nidx]
  code = SNIPPET[name]
  perm = P(0)
  for i, f in enumerate(FLAGS):
    if (perm_int >> i) & 1:
      perm = perm | flag_of(f)
  missing = REQUIRED[name]
  if flag_of(missing) & perm:
    raise Assume()
  reach('gate.replay')
  if not _refused(code, perm):
    return Violation(f'gate:ungated_construct:{name}', f'{code!r} parsed with permission {perm!r} (missing {missing})')
  return None


# ---- Engine A: every construct inside every context, symbolic missing permission ------------

PARENTS = {
    'module': '{c}',
    'if_body': 'if 1:\n{ci}',
    'else_body': 'if 1:\n  pass\nelse:\n{ci}',
    'for_body': 'for _i in ():\n{ci}',
    'while_body': 'while 0:\n{ci}',
    'def_body': 'def _f():\n{ci}',
    'class_body': 'class _A:\n{ci}',
    'try_body': 'try:\n{ci}\nexcept Exception:\n  pass',
    'except_body': 'try:\n  pass\nexcept Exception:\n{ci}',
    'finally_body': 'try:\n  pass\nfinally:\n{ci}',
    'with_body': 'with _cm:\n{ci}',
    'match_body': 'match 1:\n  case _:\n{cii}',
    'call_arg': '_g({e})',
    'list_elem': '[{e}]',
    'subscript': '_d[{e}]',
    'lambda_body': 'lambda: ({e})',
    'default_arg': 'def _f(a=({e})):\n  pass',
    'decorator': '@({e})\ndef _f():\n  pass',
    'comprehension_if': '[0 for _i in () if ({e})]',
    'fstring': "f'{{({e})}}'",
    'match_guard': 'match 1:\n  case _ if ({e}):\n    pass',
    'return_value': 'def _f():\n  return ({e})',
}
PARENT_NAMES = sorted(PARENTS)
EXPR_NODES = {'NamedExpr', 'IfExp', 'ListComp', 'SetComp', 'DictComp', 'GeneratorExp', 'Call', 'Lambda'}


def _indent(code, n):
  return '\n'.join(' ' * n + l for l in code.split('\n'))


def nest(parent, child_name):
  tmpl = PARENTS[parent]
  child = SNIPPET[child_name]
  if '{e}' in tmpl:
    if child_name not in EXPR_NODES:
      return None
    return tmpl.format(e=child)
  return tmpl.format(c=child, ci=_indent(child, 2), cii=_indent(child, 4))


def h_nested(params, pi, ci, b0, b1, b2, b3, b4, b5, b6, b7):
  """A program is refused iff it contains a construct whose permission is missing, wherever it sits."""
  parent = None
  for k, name in enumerate(PARENT_NAMES):
    if pi == k:
      parent = name
  child = None
  for k, name in enumerate(NODES):
    if ci == k:
      child = name
  if parent is None or child is None:
    raise Assume()
  code = nest(parent, child)
  if code is None:
    raise Assume()
  try:
    ast.parse(code)
  except SyntaxError:
    raise Assume()
  perm = perm_from_bits((b0, b1, b2, b3, b4, b5, b6, b7))
  need = _needs(code)
  missing = [f for f in need if not (flag_of(f) & perm)]
  refused = _refused(code, perm)
  if missing:
    reach('nested.refused')
    if not refused:
      culprit = sorted(n for n in {type(x).__name__ for x in ast.walk(ast.parse(code))} if REQUIRED.get(n) in missing)
      return Violation(f'nested:forbidden_construct_accepted:{"+".join(culprit)}:in:{parent}',
                       f'{code!r} with {perm!r}: missing {missing}')
  else:
    reach('nested.allowed')
    if refused:
      return Violation(f'nested:granted_program_refused:{child}:in:{parent}', f'{code!r} with {perm!r}')
  return None


# ---- scope rule --------------------------------------------------------------------------

def h_scope(params, s1, s2, s3, e, use1, use2, use3, use_e, prog=4, seen_before=False):
  """Effective permission under nested permission() scopes and an explicit permission= argument is never
  wider than the outermost scope; the scopes restore on exit."""
  def perm_of(x):
    p = P(0)
    for i, f in enumerate(FLAGS):
      if (x >> i) & 1:
        p = p | flag_of(f)
    return p
  # selectors range over subsets of {ASSIGN(1), CALL(8), IMPORT(128)}; made concrete by branching (the
  # enum.Flag arithmetic and exec() below are C-level / dynamically compiled code)
  def conc(x):
    for c in (0, 1, 8, 9, 128, 129, 136, 137):
      if x == c:
        return c
    raise Assume()
  use1, use2, use3, use_e = bool(use1), bool(use2), bool(use3), bool(use_e)
  if use3 and params.get('depth', 3) < 3:
    raise Assume()
  # (lazily: a permission value is a solver decision only for the scopes / argument that are present)
  s1, s2, s3, e = (conc(x) if u else 0 for x, u in ((s1, use1), (s2, use2), (s3, use3), (e, use_e)))
  prog = params['prog'] if params.get('prog') is not None else concretize(prog, range(len(SCOPE_PROGRAMS)))
  seen_before = bool(seen_before)
  with untraced():
    if seen_before:
      # history: the very same program text was accepted earlier under every permission (gating must not remember it)
      pg_exec.evaluate(SCOPE_PROGRAMS[prog][0], permission=P.ALL)
      reach('scope.seen_before')
    return _scope_body(perm_of, s1, s2, s3, e, use1, use2, use3, use_e, prog)


# programs needing each subset of the three permissions the scopes range over
SCOPE_PROGRAMS = [('x = 1', P.ASSIGN), ('abs(1)', P.CALL), ('x = abs(1)', P.ASSIGN | P.CALL), ('import os', P.IMPORT),
                  ('import os\nx = abs(1)', P.IMPORT | P.ASSIGN | P.CALL), ('import os\nx = 1', P.IMPORT | P.ASSIGN)]


def _scope_body(perm_of, s1, s2, s3, e, use1, use2, use3, use_e, prog=4):
  scopes = [perm_of(x) for x, u in ((s1, use1), (s2, use2), (s3, use3)) if u]
  reach('scope')
  code, need = SCOPE_PROGRAMS[prog]
  before = pg_perm.get_permission()
  with contextlib.ExitStack() as st:
    for p in scopes:
      st.enter_context(pg_perm.permission(p))
    outer = scopes[0] if scopes else None
    if scopes and pg_perm.get_permission() != outer:
      return Violation('scope:effective_permission_is_not_outermost', f'{scopes!r} -> {pg_perm.get_permission()!r}')
    kwargs = {}
    if use_e:
      kwargs['permission'] = perm_of(e)
    granted = None
    if use_e and outer is not None:
      granted = perm_of(e) & outer
    elif use_e:
      granted = perm_of(e)
    elif outer is not None:
      granted = outer
    try:
      pg_exec.evaluate(code, **kwargs)
      ran = True
    except pg_errors.CodeError:
      ran = False
    if granted is not None and (need & ~granted) and ran:
      return Violation('scope:forbidden_program_ran:' + ('explicit_argument' if use_e else 'scopes_only') +
                       (':inside_scope' if outer is not None else ':no_scope'),
                       f'scopes={scopes!r} explicit={(perm_of(e) if use_e else None)!r} ran a program needing {need!r}')
    if granted is not None and not (need & ~granted) and not ran:
      return Violation('scope:granted_program_refused', f'scopes={scopes!r} explicit={(perm_of(e) if use_e else None)!r}')
  if pg_perm.get_permission() != before:
    return Violation('scope:not_restored', f'{pg_perm.get_permission()!r} vs {before!r}')
  return None


# ---- execution fidelity -------------------------------------------------------------------

TEMPLATES = [
    'x = {a}\ny = x + {b}\ny * 2',
    'def f(n):\n  return n + {a}\nf({b})',
    'z = [i * {a} for i in range(3)]\nsum(z) + {b}',
    'print({a})\nprint("s", {b})\n{a} - {b}',
    'class K:\n  v = {a}\n  def m(self):\n    return self.v * {b}\nK().m()',
    'x = {a}\nif x > {b}:\n  r = 1\nelse:\n  r = 2\nr',
    't = 0\nfor i in range(3):\n  t += i + {a}\nt',
    'try:\n  w = 1 // ({a} - {a})\nexcept ZeroDivisionError:\n  w = {b}\nw',
    'import math\nmath.floor({a} / 2)',
    'd = dict(a={a})\nd["b"] = {b}\nd',
    'x = {a}\nx',
    '{a}',
    'x = y = {a}',
    'a, b = {a}, {b}',
    'raise ValueError({a})',
    'x = {a}\nundefined_name + x',
    'x = 1 // ({a} - {a})',
    'def g():\n  raise KeyError({b})\nx = {a}\ng()',
    'pass',
    '',
    'x = {a}\n\n\n# comment\ny = {b}\n(x, y)',
    'lst = [{a}, {b}]\nlst.sort()\nlst[0]',
    'x = {a}\nx += {b}',
    'class Q:\n  pass\nq = Q()\nq.v = {a}',
    'd = {{}}\nd[{a}] = {b}',
    'x: int = {a}',
]


def _plain(code):
  """Reference: plain exec of all but the last expression + eval of the last expression."""
  g = {}
  out = io.StringIO()
  tree = ast.parse(code)
  result = None
  err = None
  with contextlib.redirect_stdout(out):
    try:
      if tree.body and isinstance(tree.body[-1], ast.Expr):
        last = tree.body.pop()
        exec(compile(tree, '', 'exec'), g)   # pylint: disable=exec-used
        result = eval(compile(ast.Expression(last.value), '', 'eval'), g)   # pylint: disable=eval-used
        has_result = True
      else:
        exec(compile(tree, '', 'exec'), g)   # pylint: disable=exec-used
        has_result = False
    except Exception as e:  # pylint: disable=broad-except
      err = e
      has_result = False
  g.pop('__builtins__', None)
  return g, out.getvalue(), result, has_result, err


def h_fidelity(params, ti, a, b):
  tmpl = None
  for k, t in enumerate(TEMPLATES):
    if ti == k:
      tmpl, ti = t, k
  if tmpl is None:
    raise Assume()
  ca = cb = None
  for c in range(-2, 4):
    if a == c:
      ca = c
    if b == c:
      cb = c
  if ca is None or cb is None:
    raise Assume()
  with untraced():           # dynamically compiled code is executed by the interpreter, not symbolically
    return _fidelity_body(tmpl, ti, ca, cb)


def _fidelity_body(tmpl, ti, ca, cb):
  code = tmpl.format(a=ca, b=cb)
  g, out, result, has_result, err = _plain(code)
  try:
    got = pg_exec.evaluate(code, permission=P.ALL, outputs_intermediate=True)
    gerr = None
  except pg_errors.CodeError as e:
    got, gerr = None, e
  except Exception as e:  # pylint: disable=broad-except
    return Violation(f'fidelity:non_code_error:{type(e).__name__}:t{ti}', f'{code!r}: {e!r}')
  if err is not None:
    reach('fidelity.error')
    if gerr is None:
      return Violation(f'fidelity:error_swallowed:t{ti}', f'{code!r}: plain execution raises {err!r}')
    if type(gerr.cause) is not type(err) or str(gerr.cause) != str(err):
      return Violation(f'fidelity:wrong_cause:t{ti}', f'{code!r}: {gerr.cause!r} vs {err!r}')
    tb = err.__traceback__
    line = None
    while tb is not None:
      if tb.tb_frame.f_code.co_filename == '':
        line = tb.tb_lineno
        break
      tb = tb.tb_next
    if line is not None and gerr.lineno != line:
      return Violation(f'fidelity:wrong_error_line:t{ti}', f'{code!r}: reports line {gerr.lineno}, raised at {line}')
    return None
  reach('fidelity.ok')
  if gerr is not None:
    return Violation(f'fidelity:spurious_error:t{ti}', f'{code!r}: {gerr!r}')
  if got.get('__stdout__', '') != out:
    return Violation(f'fidelity:stdout_differs:t{ti}', f'{code!r}: {got.get("__stdout__")!r} vs {out!r}')
  if has_result and not (got.get('__result__') == result):
    return Violation(f'fidelity:result_differs:t{ti}', f'{code!r}: {got.get("__result__")!r} vs {result!r}')
  for k, v in g.items():
    if callable(v) or inspect.ismodule(v):
      if k not in got:
        return Violation(f'fidelity:intermediate_missing:t{ti}', f'{code!r}: {k}')
      continue
    same = k in got and (got[k] == v)
    if not same and k in got and hasattr(v, '__dict__') and type(got[k]).__name__ == type(v).__name__:
      same = vars(got[k]) == vars(v)          # instances of classes defined by the program itself
    if not same:
      return Violation(f'fidelity:intermediate_differs:t{ti}', f'{code!r}: {k}={got.get(k)!r} vs {v!r}')
  return None


def shards(tier, seed):
  quick = tier == 'quick'
  b = 60 if quick else 600
  out = []
  bits = [(f'b{i}', 'bool') for i in range(8)]
  for pi, parent in enumerate(PARENT_NAMES):
    out.append(dict(name=f'nested:{parent}', fn='h_nested_p', params=dict(pi=pi), args=[('ci', 'int')] + bits,
                    budget_s=b, per_path_s=20))
  out.append(dict(name='gate:all', fn='h_gate_all', params={}, args=[('nidx', 'int')], budget_s=b, per_path_s=20))
  for prog in range(len(SCOPE_PROGRAMS)):
    out.append(dict(name=f'scope:prog{prog}', fn='h_scope', params=dict(prog=prog, depth=2 if quick else 3),
                    args=[('s1', 'int'), ('s2', 'int'), ('s3', 'int'), ('e', 'int'), ('use1', 'bool'), ('use2', 'bool'),
                          ('use3', 'bool'), ('use_e', 'bool'), ('prog', 'int'), ('seen_before', 'bool')], budget_s=b * 3, expect_s=50,
                    per_path_s=20))
  if quick:
    out.append(dict(name='scope:prog4:depth3', fn='h_scope', params=dict(prog=4, depth=3),
                    args=[('s1', 'int'), ('s2', 'int'), ('s3', 'int'), ('e', 'int'), ('use1', 'bool'), ('use2', 'bool'),
                          ('use3', 'bool'), ('use_e', 'bool'), ('prog', 'int'), ('seen_before', 'bool')], budget_s=b * 5, expect_s=90,
                    per_path_s=20))
  for lo in range(0, len(TEMPLATES), 4):
    out.append(dict(name=f'fidelity:{lo}', fn='h_fidelity_r', params=dict(lo=lo, hi=lo + 4), args=[('ti', 'int'), ('a', 'int'), ('b', 'int')],
                    budget_s=b, per_path_s=20))
  return out


def h_gate_all(params, nidx):
  """Every construct of the reference table, alone, with everything granted except its own permission."""
  if not 0 <= nidx < len(NODES):
    raise Assume()
  name = None
  for k, n in enumerate(NODES):
    if nidx == k:
      name = n
  code = SNIPPET[name]
  perm = P.ALL & ~flag_of(REQUIRED[name])
  reach('gate.all')
  if not _refused(code, perm):
    return Violation(f'gate:ungated_construct:{name}', f'{code!r} parsed with permission {perm!r}')
  if _refused(code, P.ALL):
    return Violation(f'gate:refused_with_all_permissions:{name}', code)
  return None


def h_nested_p(params, ci, b0, b1, b2, b3, b4, b5, b6, b7):
  return h_nested(params, params['pi'], ci, b0, b1, b2, b3, b4, b5, b6, b7)


def h_fidelity_r(params, ti, a, b):
  if not params['lo'] <= ti < params['hi']:
    raise Assume()
  return h_fidelity(params, ti, a, b)


META = dict(
    rule='z3 query over (ast node class, 8-bit permission set) generated from the source of the validator; Engine A '
         'shards: (parent context) with symbolic child construct and permission bits; scope stacks; program templates.',
    bounds=['all %d concrete ast node classes of the running interpreter x the canonical missing-permission set per class '
            '(z3); replay snippets for the 28 construct classes of the reference table' % len(
                [n for n in dir(ast) if isinstance(getattr(ast, n), type) and issubclass(getattr(ast, n), ast.AST)]),
            'nesting: %d parent contexts x 28 child constructs x all 256 permission sets (depth 1; deeper nesting by '
            'induction over the context-free visitor, whose structure is checked from source)' % len(PARENT_NAMES),
            'scope stacks of <= 3 permission() scopes over {ASSIGN, CALL, IMPORT} subsets plus an explicit permission= argument',
            'execution fidelity: %d program templates with two constants in [-2,3] (bounded enumeration of templates; '
            'Python semantics itself is not encoded)' % len(TEMPLATES)],
    stubs=[],
    outside_claim=['constructs outside the reference table (e.g. with-statements, await)', 'sandbox_call process isolation',
                   'programs outside the template family for the execution-fidelity clause'],
    assumptions=['the reference construct-kind table (REQUIRED) is written from the language reference',
                 'position independence = context-free visitor (checked structurally) + every (parent, child) production'],
)
