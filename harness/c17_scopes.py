"""C17 — scoped settings take effect with the documented nesting rule, restore exactly on normal and
exceptional exit, and are never observable from another thread.

A registry row per context manager: factory, argument domain, observer, nesting rule. A program
is a well-nested stack of up to 3 scopes with a symbolic choice of manager and argument per
level, an exception raised at the innermost point and caught at a symbolic level. After every
enter/exit event all observers are read (a) in the running thread and compared with a reference
evaluation of the scope stack, and (b) from a fresh second thread, where only defaults may be
seen.
"""
import threading

import pyglove as pg
from pyglove.core import utils as pgu
from pyglove.core.coding import execution as pg_exec
from pyglove.core.coding import permissions as pg_perm
from pyglove.core.detouring import class_detour
from pyglove.core.symbolic import flags
from pyglove.core.utils import formatting as pg_fmt
from pyglove.core.utils import thread_local as pg_tls
from pyglove.core.utils import timing as pg_timing
from pyglove.core.views import base as pg_views
from engine.chx import Assume, Violation, reach

PROPERTY = 'C17'
LEVEL = 'model_checking'
REACH_POINTS = ['program.scope_object_used', 'program.exit_callback_raised', 'program', 'program.exception', 'thread.observed']

P = pg_perm.CodePermission


class SrcA:
  pass


class DstB(SrcA):
  pass


class DstC(SrcA):
  pass


def raising_dst(cls, *args, **kwargs):
  """A function destination of a detour that fails while creating the object."""
  raise Boom()


def ok_dst(cls, *args, **kwargs):
  return DstB()


class ExitBoom(Exception):
  """Raised by a scope's own exit callback (after the block ended normally)."""


def _raise_exit_boom():
  raise ExitBoom()


def _ev1(x):
  return 1


def _ev2(x):
  return 2


_EVAL_FNS = {'f1': _ev1, 'f2': _ev2, 'f3': _ev1}


def _dyn_eval(arg):
  name, exit_raises = arg
  return pg.hyper.dynamic_evaluate(_EVAL_FNS[name], exit_fn=_raise_exit_boom if exit_raises else None)


def _dyn_eval_name():
  from pyglove.core.hyper import base as hyper_base
  fn = hyper_base.get_dynamic_evaluate_fn()
  for k in ('f1', 'f2'):
    if fn is _EVAL_FNS[k]:
      return k
  return None if fn is None else repr(fn)


class OnDemand1:
  pass


class OnDemand2:
  pass


def _ondemand_names():
  reg = pgu.JSONConvertible._TYPE_REGISTRY        # pylint: disable=protected-access
  stack = reg._ondemand_registry_stack            # pylint: disable=protected-access
  return sorted(stack[-1]) if stack else []


def _deepcopy(x):
  import copy
  return copy.deepcopy(x)


def _timing_name():
  ctx = pg_tls.thread_local_get('__timing_context__', None)
  names = []
  while ctx is not None:
    names.append(ctx.name)
    ctx = ctx._parent          # pylint: disable=protected-access
  return tuple(reversed(names))


def _ctx_value(name):
  ov = pgu.get_contextual_override(name) if hasattr(pgu, 'get_contextual_override') else None
  return None if ov is None else ov.value


# name, factory(arg), args, observer, rule, default
def _rows():
  return [
      ('notify_on_change', pg.notify_on_change, [True, False], flags.is_change_notification_enabled, 'innermost', True),
      ('track_origin', pg.track_origin, [True, False], flags.is_tracking_origin, 'innermost', False),
      ('enable_type_check', pg.enable_type_check, [True, False], flags.is_type_check_enabled, 'innermost', True),
      ('allow_writable_accessors', pg.allow_writable_accessors, [None, True, False], flags.is_under_accessor_writable_scope,
       'innermost', None),
      ('as_sealed', pg.as_sealed, [None, True, False], flags.is_under_sealed_scope, 'innermost', None),
      ('allow_partial', pg.allow_partial, [None, True, False], flags.is_under_partial_scope, 'innermost', None),
      ('auto_call_functors', pg.auto_call_functors, [True, False], flags.should_call_functors_during_init, 'innermost', None),
      ('permission', pg_perm.permission, [P(0), P.ASSIGN, P.ALL], pg_perm.get_permission, 'outermost', None),
      ('coding_context', lambda kw: pg_exec.context(**kw), [dict(a=1), dict(a=2, b=3), dict(c=4)], pg_exec.get_context, 'merge', {}),
      ('contextual_override', lambda a: pg.contextual_override(x=a[0], cascade=a[1]), [(1, False), (2, False), (3, True)],
       lambda: _ctx_value('x'), 'cascade', None),
      ('str_format', lambda kw: pg.str_format(**kw), [dict(compact=True), dict(compact=False, verbose=False), dict(verbose=True)],
       lambda: dict(pg_tls.thread_local_kwargs(pg_fmt._TLS_STR_FORMAT_KWARGS)), 'merge', {}),   # pylint: disable=protected-access
      ('repr_format', lambda kw: pg.repr_format(**kw), [dict(compact=True), dict(compact=False, verbose=False)],
       lambda: dict(pg_tls.thread_local_kwargs(pg_fmt._TLS_REPR_FORMAT_KWARGS)), 'merge', {}),   # pylint: disable=protected-access
      ('view_options', lambda kw: pg.view_options(**_deepcopy(kw)),       # (the caller's dicts stay the caller's)
       [dict(collapse_level=1), dict(collapse_level=2, key_style='label'), dict(extra_flags=dict(fa=True)),
        dict(extra_flags=dict(fb=True), collapse_level=3)],
       lambda: _deepcopy(dict(pg_tls.thread_local_peek(pg_views._TLS_KEY_VIEW_OPTIONS, {}))), 'deep_merge', {}),   # pylint: disable=protected-access
      ('detour', lambda m: pg.detour(m), [[(SrcA, DstB)], [(SrcA, DstC)], [(SrcA, raising_dst)], [(SrcA, ok_dst)]],
       lambda: {k.__name__: getattr(v, '__name__', str(v)) for k, v in class_detour.current_mappings().items()}, 'detour', {}),
      ('timeit', pg_timing.timeit, ['t1', 't2'], _timing_name, 'timeit', ()),
      ('dynamic_evaluate', _dyn_eval, [('f1', False), ('f2', False), ('f3', True)], _dyn_eval_name, 'dyn_eval', None),
      ('ondemand_types', lambda ts: pgu.JSONConvertible.load_types_for_deserialization(*ts),
       [(OnDemand1,), (OnDemand2,), (OnDemand1, OnDemand2)], _ondemand_names, 'type_names', []),
  ]


# documented as process-wide: observable from other threads by design (restoration is still required)
PROCESS_WIDE = {'ondemand_types'}


ROWS = _rows()
NAMES = [r[0] for r in ROWS]


def _expected(name, rule, default, stack):
  """Reference nesting rule over the stack of (manager, arg) entered so far."""
  mine = [a for (m, a) in stack if m == name]
  if not mine:
    return default
  if rule == 'innermost':
    return mine[-1]
  if rule == 'outermost':
    return mine[0]
  if rule == 'merge':
    out = {}
    for kw in mine:
      out.update(kw)
    return out
  if rule == 'deep_merge':
    def dm(a, b):
      out = dict(a)
      for k, v in b.items():
        out[k] = dm(out[k], v) if isinstance(v, dict) and isinstance(out.get(k), dict) else (dict(v) if isinstance(v, dict) else v)
      return out
    out = {}
    for kw in mine:
      out = dm(out, kw)
    return out
  if rule == 'cascade':
    for v, cascade in mine:
      if cascade:
        return v
    return mine[-1][0]
  if rule == 'detour':
    # outer scope mappings take precedence over inner ones
    out = {}
    for m in mine:
      for src, dst in m:
        out.setdefault(src.__name__, dst.__name__)
    return out
  if rule == 'timeit':
    return tuple(mine)
  if rule == 'dyn_eval':
    return {'f1': 'f1', 'f2': 'f2', 'f3': 'f1'}[mine[-1][0]]
  if rule == 'type_names':
    return sorted({t.__name__ for ts in mine for t in ts})
  raise AssertionError(rule)


# public in-block API of the objects scopes hand out (`with pg.timeit() as t: ... t.end()`)
SCOPE_OBJECT_USES = {'timeit': lambda t: (t.end(), t.status())}


def _observe_all():
  return {r[0]: r[3]() for r in ROWS}


def _observe_from_other_thread():
  box = {}

  def body():
    try:
      box['obs'] = _observe_all()
      box['keys'] = sorted(vars(pg_tls._thread_local_state).keys())   # pylint: disable=protected-access
    except Exception as e:  # pylint: disable=broad-except
      box['err'] = repr(e)
  t = threading.Thread(target=body)
  t.start()
  t.join(10)
  return box


def _store_keys():
  """Keys of the thread-local store holding a value (an emptied scope stack is the same as no key)."""
  return sorted(k for k, v in vars(pg_tls._thread_local_state).items() if not (isinstance(v, (list, dict)) and not v))   # pylint: disable=protected-access


class Boom(Exception):
  pass


def _pick(seq, i):
  for k, item in enumerate(seq):
    if i == k:
      return item
  raise Assume()


def h_program(params, m2, m3, a1, a2, a3, depth, raise_at_end, catch_level, check_threads, use=0):
  m1 = params['m1']
  if check_threads and params.get('threads') is False:
    raise Assume()        # shard-level cut: the second-thread observation is made in the shards (m, m) and (m, m+1) only
  d = _pick([1, 2, 3], depth - 1)
  if d > params.get('max_depth', 3):
    raise Assume()
  levels = [(m1, a1)]
  if d >= 2:
    if params.get('m2') is not None and m2 != params['m2']:
      raise Assume()
    levels.append((_pick(list(range(len(ROWS))), m2), a2))
  if d >= 3:
    levels.append((_pick(list(range(len(ROWS))), m3), a3))
  prog = []
  for mi, ai in levels:
    row = ROWS[mi]
    prog.append((row, _pick(row[2], ai)))
  cl = _pick(list(range(d + 1)), catch_level)       # 0: caught outside all scopes; k: caught inside level k
  # which level (if any) uses the object its scope handed out; only asked for programs that contain such a scope
  use_k = _pick(list(range(d + 1)), use) if any(r[0] in SCOPE_OBJECT_USES for r, _ in prog) else 0
  reach('program')
  initial = _observe_all()
  initial_keys = _store_keys()
  defaults = {r[0]: r[5] for r in ROWS}
  problems = []

  def check(stack, where):
    got = _observe_all()
    for name, _, _, _, rule, default in ROWS:
      want = _expected(name, rule, default, stack)
      if got[name] != want:
        problems.append((f'effective_value:{name}:{where.split(":")[0]}', f'{where}: stack={[(m, a) for m, a in stack]!r} observed {got[name]!r} expected {want!r}'))
        return
    if check_threads:
      reach('thread.observed')
      box = _observe_from_other_thread()
      if 'err' in box:
        problems.append(('thread:observer_raised', box['err']))
        return
      for name in NAMES:
        if name in PROCESS_WIDE:
          continue
        if box['obs'][name] != defaults[name]:
          problems.append((f'thread:setting_leaked:{name}', f'{where}: other thread observes {box["obs"][name]!r}'))
          return

  def run(k, stack):
    if k == d:
      check(stack, 'innermost')
      if any(m == 'detour' for m, _ in stack):
        obj = SrcA()          # object creation goes through the active detour (may raise Boom from the destination)
        want_cls = _expected('detour', 'detour', {}, stack)['SrcA']
        if want_cls in ('DstB', 'DstC', 'ok_dst') and type(obj).__name__ != ('DstB' if want_cls == 'ok_dst' else want_cls):
          problems.append(('detour:creation_not_detoured', f'{stack!r}: got {type(obj).__name__}'))
        check(stack, 'innermost_after_use')
      if raise_at_end:
        reach('program.exception')
        raise Boom()
      return
    row, arg = prog[k]
    try:
      _run_level(k, stack, row, arg)
    except ExitBoom:
      # the scope's own exit callback failed after the block had ended normally: the scope is left all the same
      reach('program.exit_callback_raised')
      check(stack, f'after_exit_callback_raised:{k}')

  def _run_level(k, stack, row, arg):
    with row[1](arg) as scope_obj:
      stack2 = stack + [(row[0], arg)]
      check(stack2, f'after_enter:{k}')
      if use_k and k == use_k - 1 and row[0] in SCOPE_OBJECT_USES:
        # the block uses the public API of the object its scope handed out (however the block ends includes this)
        reach('program.scope_object_used')
        SCOPE_OBJECT_USES[row[0]](scope_obj)
        check(stack2, f'after_use:{k}')
      if cl == k + 1:
        try:
          run(k + 1, stack2)
        except Boom:
          pass
      else:
        run(k + 1, stack2)
      check(stack2, f'after_inner_exit:{k}')

  try:
    run(0, [])
  except Boom:
    if cl != 0:
      return Violation('harness:exception_escaped', '')
    raise_at_end = True
  if problems:
    sig, detail = problems[0]
    if raise_at_end:
      sig += ':after_exception' if 'after_inner_exit' in detail else ''
    return Violation(sig, detail)
  final = _observe_all()
  for name in NAMES:
    if final[name] != initial[name]:
      return Violation(f'not_restored:{name}' + (':after_exception' if raise_at_end else ''),
                       f'{[(r[0], a) for r, a in prog]!r}: {final[name]!r} vs {initial[name]!r}')
  final_keys = _store_keys()
  if final_keys != initial_keys:
    return Violation('thread_local_store_keys_not_restored' + (':after_exception' if raise_at_end else ''),
                     f'{[(r[0], a) for r, a in prog]!r}: {final_keys} vs {initial_keys}')
  return None


_ARGS = [('m2', 'int'), ('m3', 'int'), ('a1', 'int'), ('a2', 'int'), ('a3', 'int'), ('depth', 'int'), ('raise_at_end', 'bool'),
         ('catch_level', 'int'), ('check_threads', 'bool'), ('use', 'int')]


def shards(tier, seed):
  quick = tier == 'quick'
  out = []
  for mi, name in enumerate(NAMES):
    for mj, name2 in enumerate(NAMES):
      out.append(dict(name=f'program:{name}>{name2}', fn='h_program',
                      params=dict(m1=mi, m2=mj, max_depth=2 if quick else 3, threads=(not quick) or (mj - mi) % len(NAMES) in (0, 1)),
                      args=_ARGS, budget_s=30 if quick else 300, per_path_s=20))
  return out


META = dict(
    rule='Shard = outermost manager; symbolic: inner managers and all arguments, depth, exception bit, catch level, '
         'whether every event is also observed from a second thread.',
    bounds=['managers: ' + ', '.join(NAMES), 'nesting depth <= 2 (quick) / 3 (thorough), all ordered manager combinations',
            'argument domains of 2-3 values per manager', 'one exception raised at the innermost point, caught at any level',
            'cross-thread: a fresh OS thread observes all settings at every enter/exit event of the program (quick: in the shards (m, m) and (m, m+1), i.e. every manager as outer and as inner scope; thorough: all) (sequentially '
            'consistent observation points; the stores are threading.local objects)'],
    stubs=[],
    outside_claim=['pg.hyper.dynamic_evaluate, pg.apply_wrappers and on-demand deserialization types (documented as '
                   'process-wide / not thread-scoped)', 'sandbox_call', 'timing durations', 'preemption inside a manager\'s '
                   '__enter__/__exit__'],
    assumptions=['nesting rules as documented: innermost wins (flags), outermost wins (code permission, detour), first '
                 'cascading override wins (contextual_override), merged keyword arguments (format / view options / '
                 'coding context)'],
)
