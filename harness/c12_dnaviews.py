"""C12 — DNA views are lossless and every DNA handed out by the library is aligned with its spec.

Skeleton = a DNASpec derived from a hyper template (so that decision points have names, ids and
literal values). Symbolic: which valid DNA (index into the enumeration), view parameters, the
producing operation and every RNG outcome of mutators / random generation / crossovers.
"""
import itertools

import pyglove as pg
from pyglove.core import geno
from pyglove.ext.evolution import mutators
from pyglove.ext.evolution import recombinators
from engine.chx import Assume, Violation, reach, untraced, SymRandom

PROPERTY = 'C12'
LEVEL = 'model_checking'
REACH_POINTS = ['views.dict', 'views.numbers', 'views.json', 'lookup', 'chain.aligned']


def _templates():
  return dict(
      named=pg.Dict(a=pg.oneof([1, 2, pg.oneof([3, 4], name='inner')], name='a'),
                    b=pg.manyof(2, ['x', 'y', 'z'], distinct=True, sorted=True, name='b'),
                    c=pg.oneof(['p', 'q'], name='c')),
      unnamed=pg.List([pg.oneof([pg.Dict(p=pg.oneof([1, 2])), 5]), pg.manyof(2, [1, 2, 3], distinct=False, sorted=False)]),
      deep=pg.Dict(x=pg.oneof([pg.oneof([pg.oneof([1, 2]), 3]), 4]), y=pg.oneof([7, 8])),
      multi_nested=pg.Dict(m=pg.manyof(2, [pg.oneof([1, 2]), 'k', pg.Dict(z=pg.oneof(['u', 'v']))], distinct=True, sorted=False)),
      sorted_multi=pg.Dict(s=pg.manyof(3, [1, 2, 3, 4], distinct=False, sorted=True), t=pg.oneof([0, 1])),
      with_float=pg.Dict(f=pg.floatv(0.0, 1.0, name='f'), g=pg.oneof([1, 2], name='g')),
  )


_CACHE = {}


def space(name):
  if name not in _CACHE:
    with untraced():
      spec = pg.dna_spec(_templates()[name])
      if name == 'with_float':
        dnas = [pg.DNA([v, c], spec=spec) for v in (0.0, 0.5, 1.0) for c in (0, 1)]
      else:
        dnas = list(spec.iter_dna())
      _CACHE[name] = (spec, dnas)
  return _CACHE[name]


def _pick(seq, i):
  for k, item in enumerate(seq):
    if i == k:
      return item
  raise Assume()


KEY_TYPES = ['id', 'name_or_id', 'dna_spec']
VALUE_TYPES = ['value', 'dna', 'choice', 'literal', 'choice_and_literal']
MCK = ['subchoice', 'parent', 'both']


def _nodes(dna, out):
  out.append(dna)
  for c in dna.children:
    _nodes(c, out)
  return out


def aligned(dna, spec, tag):
  """Every node is bound to the decision point of its own position; all views equal those of a DNA rebuilt
  from the raw numbers."""
  try:
    spec.validate(dna)
  except ValueError as e:
    return Violation(f'{tag}:invalid_dna', f'{dna!r}: {e}')
  fresh = pg.DNA.from_numbers(dna.to_numbers(), spec)
  if not (fresh == dna):
    return Violation(f'{tag}:not_equal_to_rebuilt', f'{dna!r} vs {fresh!r}')
  if dna.spec is None:
    return Violation(f'{tag}:unbound_root', repr(dna))
  a, b = _nodes(dna, []), _nodes(fresh, [])
  if len(a) != len(b):
    return Violation(f'{tag}:shape_differs_from_rebuilt', f'{dna!r}')
  for x, y in zip(a, b):
    if x.spec is None:
      return Violation(f'{tag}:unbound_node', f'{dna!r}: node {x!r}')
    if x.spec is not y.spec:
      return Violation(f'{tag}:node_bound_to_other_decision_point',
                       f'{dna!r}: node {x!r} bound to {x.spec.id} but its position is {y.spec.id}')
  for kt, vt, mck in (('id', 'value', 'subchoice'), ('name_or_id', 'literal', 'both'), ('id', 'choice', 'parent')):
    da = dna.to_dict(key_type=kt, value_type=vt, multi_choice_key=mck)
    db = fresh.to_dict(key_type=kt, value_type=vt, multi_choice_key=mck)
    if {str(k): v for k, v in da.items()} != {str(k): v for k, v in db.items()}:
      return Violation(f'{tag}:views_differ_from_rebuilt', f'{dna!r}: {da!r} vs {db!r}')
  # lookups by decision point, by id and by name answer like those of the rebuilt DNA
  def norm(x):
    if isinstance(x, list):
      return [norm(e) for e in x]
    if isinstance(x, pg.DNA):
      return ('dna', x.value, x.to_numbers())
    return x

  def look(d, key):
    try:
      return ('ok', norm(d[key]))
    except (KeyError, ValueError, IndexError) as e:
      return ('raises', type(e).__name__)
  for dp in spec.decision_points:
    for key in (dp, dp.id, str(dp.id)):
      got, want = look(dna, key), look(fresh, key)
      if got != want:
        return Violation(f'{tag}:lookup_differs_from_rebuilt', f'{dna!r}: [{dp.id}] gives {got!r}, rebuilt gives {want!r}'[:400])
  na, nb = dna.named_decisions, fresh.named_decisions
  if {k: norm(v) for k, v in na.items()} != {k: norm(v) for k, v in nb.items()}:
    return Violation(f'{tag}:named_decisions_differ_from_rebuilt', f'{dna!r}'[:300])
  return None


def _warm(d, spec):
  """Uses the lookup API of a DNA (fills whatever the DNA memoises)."""
  for dp in spec.decision_points:
    try:
      d[dp]
      d[dp.id]
    except (KeyError, ValueError, IndexError):
      pass
  d.named_decisions   # pylint: disable=pointless-statement
  d.to_dict()


def h_views(params, n, kt, vt, mck, inactive, flat, compact):
  """Every selector is a solver decision made concrete by branching; the views and the oracle run natively."""
  from engine.chx import concretize
  spec, dnas = space(params['spec'])
  fam = params.get('family')
  if fam == 'dict':
    # every dictionary view (key type x value type x multi-choice key x inactive) of representative DNAs
    reps = sorted({0, len(dnas) // 3, (2 * len(dnas)) // 3, len(dnas) - 1})
    n = reps[concretize(n, range(len(reps)))]
    kt, vt, mck = concretize(kt, range(len(KEY_TYPES))), concretize(vt, range(len(VALUE_TYPES))), concretize(mck, range(len(MCK)))
    inactive, flat, compact = bool(inactive), False, False
  elif fam == 'all':
    # every DNA of the skeleton: numbers (flat / nested), JSON (verbose / compact), lookups, alignment; default dictionary view
    n = concretize(n, range(len(dnas)))
    kt, vt, mck, inactive = 0, 0, 0, False
    flat, compact = bool(flat), bool(compact)
  else:
    n = concretize(n, range(len(dnas)))
    kt, vt, mck = concretize(kt, range(len(KEY_TYPES))), concretize(vt, range(len(VALUE_TYPES))), concretize(mck, range(len(MCK)))
    inactive, flat, compact = bool(inactive), bool(flat), bool(compact)
  with untraced():
    return _views_body(params, spec, dnas[n], KEY_TYPES[kt], VALUE_TYPES[vt], MCK[mck], inactive, flat, compact)


def _views_body(params, spec, d, kt, vt, mck, inactive, flat, compact):
  tag = f'{params["spec"]}'
  # dictionary views
  reach('views.dict')
  view = d.to_dict(key_type=kt, value_type=vt, multi_choice_key=mck, include_inactive_decisions=bool(inactive))
  if vt in ('value', 'choice', 'literal', 'choice_and_literal', 'dna'):
    try:
      back = pg.DNA.from_dict(view, spec, use_ints_as_literals=(vt == 'literal'))
    except Exception as e:  # pylint: disable=broad-except
      return Violation(f'views:from_dict_raises:{vt}:{mck}:{type(e).__name__}', f'{tag} {d!r} {kt}: {view!r}: {e!r}'[:500])
    if not (back == d):
      return Violation(f'views:dict_not_lossless:{kt}:{vt}:{mck}', f'{tag} {d!r}: {view!r} -> {back!r}')
  # numbers
  reach('views.numbers')
  nums = d.to_numbers(flatten=bool(flat))
  try:
    if flat:
      back = pg.DNA.from_numbers(nums, spec)
    else:
      back = pg.DNA(nums, spec=spec)
  except ValueError as e:
    return Violation(f'views:numbers_do_not_rebuild:{"flat" if flat else "nested"}', f'{tag} {d!r}: {nums!r}: {e}'[:400])
  if not (back == d):
    return Violation(f'views:numbers_not_lossless:{"flat" if flat else "nested"}', f'{tag} {d!r}: {nums!r} -> {back!r}')
  # json
  reach('views.json')
  js = d.to_json(type_info=not compact) if True else None
  back = pg.DNA.from_json(js) if not compact else pg.DNA(js)
  if not (back == d):
    return Violation(f'views:json_not_lossless:{"compact" if compact else "verbose"}', f'{tag} {d!r}: {js!r} -> {back!r}')
  try:
    back.use_spec(spec)
  except ValueError as e:
    return Violation('views:json_rebuilt_does_not_bind', f'{tag} {d!r}: {e}')
  # lookups
  reach('lookup')
  named = d.named_decisions
  for name, sub in named.items():
    subs = sub if isinstance(sub, list) else [sub]
    for s in subs:
      if s is None:
        continue        # inactive decision
      if s.spec is None or (s.spec.name != name and (s.spec.parent_spec is None or s.spec.parent_spec.name != name)):
        return Violation('lookup:named_decision_wrong', f'{tag} {d!r}: {name} -> {s!r}')
  ids = d.to_dict(key_type='id', value_type='dna')
  for k, sub in ids.items():
    subs = sub if isinstance(sub, list) else [sub]
    for s in subs:
      if s.spec is None:
        return Violation('lookup:unbound_decision', f'{tag} {d!r}: {k}')
  return aligned(d, spec, 'enumerated')


CHAIN = ['next', 'random', 'parse', 'clone', 'json', 'uniform', 'swap', 'uniform_swap', 'crossover_uniform', 'crossover_kpoint',
         'permute']


def _rotate_first_multichoice(node, k, done):
  """A DNA assembled (public constructor) from the *bound* sub-choice nodes of `node` in rotated order: what a hand-written
  swap-like operator does before it hands the result to `use_spec`."""
  ch = list(node.children)
  if not done and len(ch) > 1 and all(c.spec is not None and getattr(c.spec, 'is_subchoice', False) for c in ch):
    k = k % len(ch)
    if k:
      done.append(k)
      return pg.DNA(node.value, ch[k:] + ch[:k])
  if not ch:
    return node
  new = [_rotate_first_multichoice(c, k, done) for c in ch]
  return pg.DNA(node.value, new) if done else node


def h_chain(params, n, n2, op, rng, warm=False):
  from engine.chx import concretize
  spec, dnas = space(params['spec'])
  ops = params.get('ops') or CHAIN
  name = ops[concretize(op, range(len(ops)))]
  # lazily: which input DNA is a solver decision only for operations that read it; recombination takes both parents from
  # representative members
  reps = sorted({0, len(dnas) // 3, (2 * len(dnas)) // 3, len(dnas) - 1})
  if name == 'random':
    d = dnas[0]
  elif name.startswith('crossover'):
    if params.get('parents'):
      reps = reps[::len(reps) - 1][:params['parents']] if params['parents'] == 2 else reps
    d = dnas[reps[concretize(n, range(len(reps)))]]
  else:
    d = dnas[concretize(n, range(len(dnas)))]
  before_numbers = d.to_numbers()
  e = dnas[reps[concretize(n2, range(len(reps)))]] if name.startswith('crossover') else None
  warm = bool(params['warm']) if params.get('warm') is not None else bool(warm)
  rot = 1 + concretize(n2, range(3)) if name == 'permute' else 0
  try:
   with untraced():       # the operators run natively; every RNG outcome stays a solver decision (SymRandom)
     # the input is a DNA of its own (nothing memoised by an earlier path), optionally used through its lookup API first
     d = pg.DNA.from_numbers(before_numbers, spec)
     if warm:
       _warm(d, spec)
     if name == 'next':
       r = d.next_dna()
       if r is None:
         raise Assume()
     elif name == 'random':
       r = pg.random_dna(spec, rng)
     elif name == 'parse':
       r = pg.DNA.parse(d.to_json(type_info=False), spec)
     elif name == 'clone':
       r = d.clone(deep=True)
     elif name == 'json':
       r = pg.from_json(pg.to_json(d))
       r.use_spec(spec)
     elif name == 'permute':
       done = []
       r = _rotate_first_multichoice(d, rot, done)
       if not done:
         raise Assume()
       try:
         r.use_spec(spec)
       except ValueError:          # (the rotated order is not valid for a sorted multi-choice)
         raise Assume()
     elif name == 'uniform':
       m = mutators.Uniform(seed=1)
       m._random = rng        # pylint: disable=protected-access
       r = m.mutate(d)
     elif name == 'swap':
       m = mutators.Swap(seed=1)
       m._random = rng        # pylint: disable=protected-access
       r = m.mutate(d)
     elif name == 'uniform_swap':
       m1, m2 = mutators.Uniform(seed=1), mutators.Swap(seed=1)
       m1._random = rng       # pylint: disable=protected-access
       m2._random = rng       # pylint: disable=protected-access
       r = m2.mutate(m1.mutate(d))
     else:
       rc = dict(crossover_uniform=recombinators.Uniform, crossover_kpoint=lambda seed: recombinators.KPoint(1, seed=seed))[name](seed=1)
       rc._random = rng       # pylint: disable=protected-access
       out = rc.recombine([d, e], pg.geno.AttributeDict(), 0)
       if not out:
         raise Assume()
       r = out[0]
  except (RuntimeError, NotImplementedError):
    raise Assume()
  reach('chain.aligned')
  with untraced():
    viol = aligned(r, spec, f'{name}')
    if viol is not None:
      return viol
    if d.to_numbers() != before_numbers:
      return Violation(f'{name}:input_modified', '')
  return None


def shards(tier, seed):
  quick = tier == 'quick'
  b = 50 if quick else 600
  out = []
  va = [('n', 'int'), ('kt', 'int'), ('vt', 'int'), ('mck', 'int'), ('inactive', 'bool'), ('flat', 'bool'), ('compact', 'bool')]
  ca = [('n', 'int'), ('n2', 'int'), ('op', 'int'), ('rng', 'rng'), ('warm', 'bool')]
  for name in _templates():
    for fam in ('dict', 'all'):
      out.append(dict(name=f'views:{name}:{fam}', fn='h_views', params=dict(spec=name, family=fam), args=va,
                      budget_s=b * 3, expect_s=50, per_path_s=30, format_stub=False))
    if not quick:
      out.append(dict(name=f'views:{name}', fn='h_views', params=dict(spec=name), args=va, budget_s=b, per_path_s=30, format_stub=False))
    if name == 'with_float':
      continue
    for ops in (['next', 'random', 'parse', 'clone', 'json'], ['uniform'], ['swap', 'uniform_swap'],
                ['crossover_uniform', 'crossover_kpoint'], ['permute']):
      if ops[0] == 'permute' and name not in ('multi_nested', 'unnamed', 'sorted_multi'):
        continue                     # (no multi-choice whose rotated order is valid: the shard would be vacuous)
      mutating = ops[0] in ('uniform', 'swap')
      for warm in (((True,) if quick else (False, True)) if mutating else (False,)):
        out.append(dict(name=f'chain:{name}:{"+".join(ops)}' + (':warm' if warm else ''), fn='h_chain',
                        params=dict(spec=name, ops=ops, warm=warm, parents=2 if quick else 4), args=ca,
                        budget_s=b * (2 if ops[0].startswith('crossover') else 4), expect_s=80, per_path_s=30))
  return out


META = dict(
    rule='Shard = (view family | producing operations, spec skeleton). views:dict = every dictionary view (key type x value '
         'type x multi-choice key x inactive) of 4 representative DNAs; views:all = every valid DNA x numbers (flat/nested) x '
         'JSON (verbose/compact) x lookups; chain = producing operation x input DNA (all; recombination: 2 (quick) / 4 '
         'representative parents each) x every RNG draw, the input used through its lookup API first (warm).',
    bounds=['spec skeletons: named (names, nested conditional, sorted-distinct multi-choice), unnamed, deep (3-level '
            'conditional chain), multi_nested, sorted_multi, with_float', 'all valid DNAs of each skeleton (enumerated once, '
            'untraced); with_float: values {0, 0.5, 1}', 'operations: ' + ', '.join(CHAIN),
            'RNG: every draw a fresh solver variable in range'],
    stubs=['random.Random replaced by engine.chx.SymRandom'],
    outside_claim=['chains longer than 2 operations', 'permute: only the first multi-choice node (DFS), rotations by 1..3', 'custom decision points', 'recombinators other than Uniform/KPoint/Sample'],
    assumptions=[],
)
