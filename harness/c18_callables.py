"""C18 — symbolized callables keep Python call semantics (differential vs the interpreter).

Skeleton = a Python signature; symbolic = the call shape: number of positional arguments and
keyword presence masks at construction and at call time, override/ignore flags. The functor
(or symbolized class) must produce the same result or the same kind of error as the direct
call with the same effective arguments; reported arguments, generated signature, clone and
JSON round trip must describe those arguments.
"""
import inspect

import pyglove as pg
from engine.chx import Assume, Violation, reach

PROPERTY = 'C18'
LEVEL = 'model_checking'
REACH_POINTS = ['subclassed.values', 'rebind.ok', 'subclassed.ok', 'subclassed.raised', 'ctor.ok', 'ctor.error', 'late.ok', 'late.error', 'split.ok', 'split.error', 'class.ok', 'class.error',
                'roundtrip']

SIG_SRC = {
    's0': 'def s0(): return ("s0",)',
    's1': 'def s1(a): return ("s1", a)',
    's2': 'def s2(a, b): return ("s2", a, b)',
    's2d': 'def s2d(a, b=2): return ("s2d", a, b)',
    's3d': 'def s3d(a=1, b=2, c=3): return ("s3d", a, b, c)',
    'sv': 'def sv(a, *args): return ("sv", a, args)',
    'svd': 'def svd(a, b=2, *args): return ("svd", a, b, args)',
    'sk': 'def sk(a, *, c): return ("sk", a, c)',
    'skd': 'def skd(a, b=2, *, c=3, d): return ("skd", a, b, c, d)',
    'skw': 'def skw(a, **kw): return ("skw", a, tuple(sorted(kw.items())))',
    'sall': 'def sall(a, b=2, *args, c, d=4, **kw): return ("sall", a, b, args, c, d, tuple(sorted(kw.items())))',
    'sann': 'def sann(a: int, b: int = 2, *, c: int = 3) -> tuple: return ("sann", a, b, c)',
    'svk': 'def svk(*args, **kw): return ("svk", args, tuple(sorted(kw.items())))',
}
for _src in SIG_SRC.values():
  exec(_src, globals())      # pylint: disable=exec-used   (module-level functions: serializable by name)
FNS = {k: globals()[k] for k in SIG_SRC}
FUN = {k: pg.functor()(f) for k, f in FNS.items()}
KW_NAMES = ['a', 'b', 'c', 'd', 'zz']


def _params(fn):
  sig = inspect.signature(fn)
  pos = [p.name for p in sig.parameters.values() if p.kind in (p.POSITIONAL_ONLY, p.POSITIONAL_OR_KEYWORD)]
  has_var = any(p.kind == p.VAR_POSITIONAL for p in sig.parameters.values())
  has_kw = any(p.kind == p.VAR_KEYWORD for p in sig.parameters.values())
  kwonly = [p.name for p in sig.parameters.values() if p.kind == p.KEYWORD_ONLY]
  return pos, has_var, has_kw, kwonly


def _count(n, lo, hi):
  for c in range(lo, hi + 1):
    if n == c:
      return c
  raise Assume()


def _call(f, args, kwargs):
  try:
    return f(*args, **kwargs), None
  except TypeError as e:
    return None, 'TypeError'


def h_ctor(params, p, m0, m1, m2, m3, m4):
  """All arguments bound at construction: F(*args, **kwargs)() vs f(*args, **kwargs)."""
  name = params['sig']
  f, F = FNS[name], FUN[name]
  p = _count(p, 0, 4)
  args = [10, 20, 30, 40][:p]
  kwargs = {n: 100 + i for i, n in enumerate(KW_NAMES) if (m0, m1, m2, m3, m4)[i]}
  r1, e1 = _call(f, args, kwargs)
  try:
    obj = F(*args, **kwargs)
    r2, e2 = _call(obj, [], {})
  except TypeError:
    obj, r2, e2 = None, None, 'TypeError'
  reach('ctor.ok' if e1 is None else 'ctor.error')
  if e1 != e2:
    return Violation(f'ctor:error_kind_differs:{name}:{e1}->{e2}', f'{name}(*{args}, **{kwargs}): direct {e1}, functor {e2}')
  if r1 != r2:
    return Violation(f'ctor:result_differs:{name}', f'{name}(*{args}, **{kwargs}): direct {r1!r}, functor {r2!r}')
  if obj is not None and e1 is None:
    reach('roundtrip')
    for how, o2 in (('clone', obj.clone()), ('deep_clone', obj.clone(deep=True)), ('json', pg.from_json(pg.to_json(obj)))):
      r3, e3 = _call(o2, [], {})
      if e3 is not None or r3 != r1:
        return Violation(f'ctor:{how}_differs:{name}', f'{name}(*{args}, **{kwargs}): direct {r1!r}, after {how} {r3!r} {e3}')
    # reported arguments describe the effective arguments
    pos, has_var, has_kw, kwonly = _params(f)
    init = obj.sym_init_args
    bound = inspect.signature(f).bind(*args, **kwargs)
    for pname, val in bound.arguments.items():
      kind = inspect.signature(f).parameters[pname].kind
      got = init.get(pname, pg.MISSING_VALUE)
      if kind == inspect.Parameter.VAR_POSITIONAL:
        if list(got or []) != list(val):
          return Violation(f'ctor:reported_varargs_differ:{name}', f'{got!r} vs {val!r}')
      elif kind == inspect.Parameter.VAR_KEYWORD:
        for k2, v2 in val.items():
          if init.get(k2, pg.MISSING_VALUE) != v2:
            return Violation(f'ctor:reported_kwargs_differ:{name}', f'{k2}: {init.get(k2)!r} vs {v2!r}')
      elif got != val:
        return Violation(f'ctor:reported_arg_differs:{name}', f'{pname}: {got!r} vs {val!r}')
  return None


def h_late(params, p, m0, m1, m2, m3, m4):
  """All arguments bound at call time: F()(*args, **kwargs) vs f(*args, **kwargs)."""
  name = params['sig']
  f, F = FNS[name], FUN[name]
  p = _count(p, 0, 4)
  args = [10, 20, 30, 40][:p]
  kwargs = {n: 100 + i for i, n in enumerate(KW_NAMES) if (m0, m1, m2, m3, m4)[i]}
  r1, e1 = _call(f, args, kwargs)
  obj = F()
  r2, e2 = _call(obj, args, kwargs)
  reach('late.ok' if e1 is None else 'late.error')
  if e1 != e2:
    return Violation(f'late:error_kind_differs:{name}:{e1}->{e2}', f'{name}(*{args}, **{kwargs}): direct {e1}, functor {e2} {r2!r}')
  if r1 != r2:
    return Violation(f'late:result_differs:{name}', f'{name}(*{args}, **{kwargs}): direct {r1!r}, functor {r2!r}')
  # a late-bound call must not leave anything bound
  r3, e3 = _call(obj, args, kwargs)
  if (r3, e3) != (r2, e2):
    return Violation(f'late:second_call_differs:{name}', f'{r3!r} {e3} vs {r2!r} {e2}')
  return None


def h_split(params, c0, c1, c2, c3, c4, p, m0, m1, m2, m3, m4, override, ctor_override=False, via_copy=False):
  """Keyword binding at construction, positional + keyword binding at call time (override on/off, enabled at call time
  or at construction)."""
  name = params['sig']
  f, F = FNS[name], FUN[name]
  pos, has_var, has_kw, kwonly = _params(f)
  # keyword names that are not parameters all behave like 'zz' (unexpected keyword / collected by **kw): only 'zz' is varied
  for i, n in enumerate(KW_NAMES):
    if n != 'zz' and n not in pos and n not in kwonly and ((c0, c1, c2, c3, c4)[i] or (m0, m1, m2, m3, m4)[i]):
      raise Assume()
  p = _count(p, 0, 3)
  ckw = {n: 100 + i for i, n in enumerate(KW_NAMES) if (c0, c1, c2, c3, c4)[i]}
  args = [10, 20, 30][:p]
  kwargs = {n: 200 + i for i, n in enumerate(KW_NAMES) if (m0, m1, m2, m3, m4)[i]}
  if ctor_override and not override:
    raise Assume()          # (ctor_override refines override: where overriding was switched on)
  try:
    obj = F(**ckw, override_args=True) if ctor_override else F(**ckw)
  except TypeError:
    raise Assume()          # construction-time errors are h_ctor's subject
  from engine.chx import concretize
  via_copy = concretize(via_copy, (0, 1, 2))
  suffix = ''
  if via_copy == 1:
    # the call goes to a copy of the functor: a copy binds and calls like its original
    obj = obj.clone().clone(deep=True)
    suffix = ':on_clone'
  elif via_copy == 2:
    obj = pg.from_json(pg.to_json(obj))
    suffix = ':after_json_round_trip'
  # effective arguments
  eff = dict(ckw)
  varargs = []
  conflict = False
  for i, v in enumerate(args):
    if i < len(pos):
      if pos[i] in eff:
        conflict = True
      eff[pos[i]] = v
    else:
      varargs.append(v)
  dup_at_call = any(i < len(pos) and pos[i] in kwargs for i in range(len(args)))
  for k, v in kwargs.items():
    if k in eff and k in ckw and not (k in [pos[i] for i in range(min(len(args), len(pos)))]):
      conflict = True
    eff[k] = v
  if dup_at_call:
    # f(1, a=2): "multiple values" within one call is an error whatever the override setting
    ck = dict(kwargs)
    if override and not ctor_override:
      ck['override_args'] = True
    r2, e2 = _call(obj, args, ck)
    reach('split.error')
    if e2 != 'TypeError':
      return Violation(f'split:duplicate_argument_in_one_call_accepted:{name}',
                       f'ctor {ckw} call *{args} **{kwargs} override={override} at_ctor={ctor_override} -> {r2!r}')
    return None
  if conflict and not override:
    # documented: a new value for a bound argument needs override_args=True
    r2, e2 = _call(obj, args, dict(kwargs))
    reach('split.error')
    if e2 != 'TypeError':
      return Violation(f'split:rebinding_without_override_accepted:{name}', f'ctor {ckw} call *{args} **{kwargs} -> {r2!r}')
    return None
  # direct call with the effective arguments
  prefix = []
  for n in pos:
    if n in eff:
      prefix.append(eff[n])
    else:
      break
  rest = {k: v for k, v in eff.items() if k not in pos[:len(prefix)]}
  if varargs and len(prefix) < len(pos):
    raise Assume()
  if varargs and not has_var:
    direct_args = prefix + varargs
  else:
    direct_args = prefix + varargs
  r1, e1 = _call(f, direct_args, rest)
  call_kwargs = dict(kwargs)
  if override and not ctor_override:
    call_kwargs['override_args'] = True
  r2, e2 = _call(obj, args, call_kwargs)
  reach('split.ok' if e1 is None else 'split.error')
  if e1 != e2:
    return Violation(f'split:error_kind_differs:{name}:{e1}->{e2}{suffix}',
                     f'ctor {ckw} call *{args} **{kwargs} override={override}: direct {e1} {r1!r}, functor {e2} {r2!r}')
  if r1 != r2:
    return Violation(f'split:result_differs:{name}{suffix}', f'ctor {ckw} call *{args} **{kwargs} override={override}: direct {r1!r}, functor {r2!r}')
  # call-time values must not stick
  r0, e0 = _call(f, [], dict(ckw)) if not any(n in ckw for n in []) else (None, None)
  r3, e3 = _call(obj, [], {})
  if (r0, e0) != (r3, e3):
    return Violation(f'split:call_time_binding_persisted:{name}', f'ctor {ckw}: plain call gives {r3!r} {e3}, expected {r0!r} {e0}')
  return None


# ---- binding later through rebind / attribute assignment -----------------------------------

def sd(cfg, scale=1, bias=0, *, mode=7, **kw):
  return ('sd', cfg['k'], scale, bias, mode, tuple(sorted(kw.items())))


SD = pg.functor()(sd)


def h_rebind(params, c_scale, c_bias, r_k, r_scale, r_bias, r_mode, r_extra, order, via_setattr):
  """Arguments bound later via rebind (nested paths mixed with top-level names, in either order) or attribute
  assignment; then called. Compared with the direct call on the effective arguments."""
  ckw = {}
  if c_scale:
    ckw['scale'] = 11
  if c_bias:
    ckw['bias'] = 12
  obj = SD(cfg=dict(k=1), **ckw)
  eff = dict(cfg=dict(k=1), **ckw)
  later = []
  if r_k:
    later.append(('cfg.k', 5))
    eff['cfg'] = dict(k=5)
  if r_scale:
    later.append(('scale', 21))
    eff['scale'] = 21
  if r_bias:
    later.append(('bias', 22))
    eff['bias'] = 22
  if r_mode:
    later.append(('mode', 23))
    eff['mode'] = 23
  if r_extra:
    later.append(('zz', 24))
    eff['zz'] = 24
  if not later:
    raise Assume()
  if order:
    later.reverse()
  if via_setattr:
    with pg.allow_writable_accessors(True):
      for k, v in later:
        if k == 'cfg.k':
          obj.cfg.k = v
        else:
          obj.__setattr__(k, v)
  else:
    obj.rebind(dict(later))
  reach('rebind.ok')
  want = sd(**eff)
  got, err = _call(obj, [], {})
  if err is not None or got != want:
    return Violation('rebind:result_differs:' + ('setattr' if via_setattr else 'rebind'),
                     f'ctor {ckw} later {later}: direct {want!r}, functor {got!r} {err}')
  for how, o2 in (('clone', obj.clone(deep=True)), ('json', pg.from_json(pg.to_json(obj)))):
    g2, e2 = _call(o2, [], {})
    if e2 is not None or g2 != want:
      return Violation(f'rebind:{how}_differs', f'ctor {ckw} later {later}: direct {want!r}, after {how} {g2!r} {e2}')
  return None


class Div(pg.Functor):
  """A class-based functor (fields + _call)."""
  x: int
  y: int = 2
  z: int = 0

  def _call(self):
    return (self.x // self.y) + self.z


def h_subclassed(params, v, use_z, again):
  """Call-time overrides of a class-based functor are visible only during the call, also when it raises."""
  yv = None
  for c in range(-1, 3):
    if v == c:
      yv = c
  if yv is None:
    raise Assume()
  d = Div(x=8)
  kwargs = dict(y=yv, override_args=True)
  if use_z:
    kwargs['z'] = 5
  try:
    want = (8 // yv) + (5 if use_z else 0)
    werr = None
  except ZeroDivisionError:
    want, werr = None, 'ZeroDivisionError'
  try:
    got, gerr = d(**kwargs), None
  except ZeroDivisionError:
    got, gerr = None, 'ZeroDivisionError'
  reach('subclassed.ok' if werr is None else 'subclassed.raised')
  if (got, gerr) != (want, werr):
    return Violation('subclassed:call_differs', f'y={yv}: direct {want} {werr}, functor {got} {gerr}')
  # afterwards the object reports and uses its own arguments again
  if d.y != 2 or d.z != 0 or d.sym_init_args.y != 2:
    return Violation('subclassed:call_time_override_persisted' + (':after_exception' if werr else ''),
                     f'after d(y={yv}): d.y={d.y} d.z={d.z}')
  if again and d() != 4:
    return Violation('subclassed:second_call_differs' + (':after_exception' if werr else ''), f'{d()}')
  return None


class Tag(pg.Functor):
  """A class-based functor whose optional arguments have non-None defaults (so None is a value, not an absence)."""
  name: str
  suffix: pg.typing.Str().noneable() = '!'
  n: pg.typing.Int().noneable() = 3

  def _call(self):
    return (self.name, self.suffix, self.n)


def _tag(name, suffix='!', n=3):
  return (name, suffix, n)


_ABSENT = object()
SUFFIXES = [_ABSENT, None, '', 'x']
NS = [_ABSENT, None, 0, 5]


def h_subclassed_values(params, cs, cn, ks, kn, positional, ctor_override):
  """Falsy and None values given at call time to a class-based functor are values like any other."""
  from engine.chx import concretize, untraced
  cs, cn, ks, kn = (concretize(x, range(4)) for x in (cs, cn, ks, kn))
  positional, ctor_override = bool(positional), bool(ctor_override)
  with untraced():
    ckw = {}
    if SUFFIXES[cs] is not _ABSENT:
      ckw['suffix'] = SUFFIXES[cs]
    if NS[cn] is not _ABSENT:
      ckw['n'] = NS[cn]
    call = {}
    if SUFFIXES[ks] is not _ABSENT:
      call['suffix'] = SUFFIXES[ks]
    if NS[kn] is not _ABSENT:
      call['n'] = NS[kn]
    rebinds = any(k in ckw for k in call)
    eff = dict(ckw)
    eff.update(call)
    want = _tag('t', **eff)
    obj = Tag('t', **ckw, override_args=True) if ctor_override else Tag('t', **ckw)
    args, kwargs = [], dict(call)
    if positional and 'suffix' in call:
      # call-time positionals are matched from the first parameter on: name is given again (same value), then suffix
      args = ['t', kwargs.pop('suffix')]
    if not ctor_override:
      kwargs['override_args'] = True
    reach('subclassed.values')
    try:
      got = obj(*args, **kwargs)
    except TypeError as e:
      return Violation('subclassed:call_raises', f'Tag(t, **{ckw})(*{args}, **{kwargs}): {e!r}'[:300])
    if got != want:
      return Violation('subclassed:call_time_value_ignored' + (':none' if any(v is None for v in call.values()) else ''),
                       f'Tag(t, **{ckw})(*{args}, **{call}) -> {got!r}, direct call gives {want!r}')
    after = obj()
    if after != _tag('t', **ckw):
      return Violation('subclassed:call_time_override_persisted', f'{after!r} vs {_tag("t", **ckw)!r}')
  return None


# ---- symbolized classes --------------------------------------------------------------------
CLASS_SRC = {
    'K2d': 'class K2d:\n  def __init__(self, a, b=2):\n    self.a, self.b = a, b',
    'Kall': 'class Kall:\n  def __init__(self, a, b=2, *args, c, d=4, **kw):\n    self.a, self.b, self.args, self.c, self.d, self.kw = a, b, args, c, d, dict(kw)',
    'Kk': 'class Kk:\n  def __init__(self, a, *, c=3):\n    self.a, self.c = a, c',
}
for _src in CLASS_SRC.values():
  exec(_src, globals())      # pylint: disable=exec-used
KLS = {k: globals()[k] for k in CLASS_SRC}
WRAPPED = {k: pg.symbolize(v) for k, v in KLS.items()}


def h_class(params, p, m0, m1, m2, m3, m4):
  name = params['cls']
  K, W = KLS[name], WRAPPED[name]
  p = _count(p, 0, 4)
  args = [10, 20, 30, 40][:p]
  kwargs = {n: 100 + i for i, n in enumerate(KW_NAMES) if (m0, m1, m2, m3, m4)[i]}
  try:
    o1, e1 = K(*args, **kwargs), None
  except TypeError:
    o1, e1 = None, 'TypeError'
  try:
    o2, e2 = W(*args, **kwargs), None
  except TypeError:
    o2, e2 = None, 'TypeError'
  reach('class.ok' if e1 is None else 'class.error')
  if e1 != e2:
    return Violation(f'class:error_kind_differs:{name}:{e1}->{e2}', f'{name}(*{args}, **{kwargs})')
  if e1 is None:
    d1 = dict(vars(o1))
    d2 = {k: getattr(o2, k) for k in d1}
    if {k: (tuple(v) if isinstance(v, (list, tuple)) else (dict(v) if isinstance(v, dict) else v)) for k, v in d2.items()} != \
       {k: (tuple(v) if isinstance(v, (list, tuple)) else v) for k, v in d1.items()}:
      return Violation(f'class:attributes_differ:{name}', f'{name}(*{args}, **{kwargs}): {d1!r} vs {d2!r}')
    c = o2.clone(deep=True)
    if {k: getattr(c, k) for k in d1} != d2:
      return Violation(f'class:clone_differs:{name}', '')
    j = pg.from_json(pg.to_json(o2))
    if {k: getattr(j, k) for k in d1} != d2:
      return Violation(f'class:json_differs:{name}', '')
  return None


def h_signature(params, dummy):
  """The generated __init__/__call__ signature names the same parameters, kinds and defaults."""
  name = params['sig']
  f, F = FNS[name], FUN[name]
  want = inspect.signature(f)
  got = inspect.signature(F.__init__)
  gp = [p for n, p in got.parameters.items() if n != 'self']
  wp = list(want.parameters.values())
  reach('roundtrip')
  if [(p.name, p.kind) for p in gp] != [(p.name, p.kind) for p in wp]:
    return Violation(f'signature:parameters_differ:{name}', f'{got} vs {want}')
  for a, b in zip(gp, wp):
    if b.default is not inspect.Parameter.empty and a.default != b.default:
      return Violation(f'signature:default_differs:{name}:{a.name}', f'{a.default!r} vs {b.default!r}')
  return None


_CALL = [('p', 'int')] + [(f'm{i}', 'bool') for i in range(5)]
_SPLIT = [(f'c{i}', 'bool') for i in range(5)] + _CALL + [('override', 'bool'), ('ctor_override', 'bool'), ('via_copy', 'int')]


def shards(tier, seed):
  quick = tier == 'quick'
  b = 40 if quick else 400
  out = []
  for name in SIG_SRC:
    out.append(dict(name=f'ctor:{name}', fn='h_ctor', params=dict(sig=name), args=_CALL, budget_s=b, per_path_s=20))
    out.append(dict(name=f'late:{name}', fn='h_late', params=dict(sig=name), args=_CALL, budget_s=b, per_path_s=20))
    out.append(dict(name=f'split:{name}', fn='h_split', params=dict(sig=name), args=_SPLIT, budget_s=b * 3, expect_s=60, per_path_s=20))
    out.append(dict(name=f'signature:{name}', fn='h_signature', params=dict(sig=name), args=[('dummy', 'int')], budget_s=10, per_path_s=10))
  out.append(dict(name='rebind', fn='h_rebind', params={},
                  args=[(n, 'bool') for n in ('c_scale', 'c_bias', 'r_k', 'r_scale', 'r_bias', 'r_mode', 'r_extra', 'order', 'via_setattr')],
                  budget_s=b * 2, per_path_s=20))
  out.append(dict(name='subclassed', fn='h_subclassed', params={}, args=[('v', 'int'), ('use_z', 'bool'), ('again', 'bool')],
                  budget_s=b, per_path_s=20))
  out.append(dict(name='subclassed_values', fn='h_subclassed_values', params={},
                  args=[(n, 'int') for n in ('cs', 'cn', 'ks', 'kn')] + [('positional', 'bool'), ('ctor_override', 'bool')],
                  budget_s=b * 2, expect_s=40, per_path_s=20))
  for name in CLASS_SRC:
    out.append(dict(name=f'class:{name}', fn='h_class', params=dict(cls=name), args=_CALL, budget_s=b, per_path_s=20))
  return out


META = dict(
    rule='Shard = (binding mode, signature); symbolic: number of positional arguments, keyword presence mask over '
         '{a,b,c,d,zz} at construction and at call time, override flag.',
    bounds=['signatures: ' + '; '.join(s.split(':')[0][4:] for s in SIG_SRC.values()),
            'classes: ' + ', '.join(CLASS_SRC), '0..4 positional arguments, 32 keyword masks (incl. one unknown name) per phase',
            'argument values are distinct integer constants'],
    stubs=[],
    outside_claim=['positional-only markers', 'decorators altering signatures, async callables', 'typed arguments rejecting values',
                   'f(1, a=2)-style duplicates in split binding (covered for late binding)'],
    assumptions=['effective arguments of a split binding: construction-time keywords overlaid by call-time positionals '
                 '(by position) and keywords; rebinding a bound argument requires override_args=True (documented)'],
)
