"""C09 — change-notification contract and freshness of derived state.

Events are recorded by pg.Object subclasses overriding `_on_change` and by Dict/List
`onchange_callback`s placed in a skeleton tree; the oracle is computed from before/after
snapshots of the tree. Derived facts (partial / missing / non-default / pure-symbolic /
deterministic) of every node are compared with those of a freshly built deep copy.
"""
import pyglove as pg
from engine.chx import Assume, Violation, reach, untraced, concretize
from harness import treeops as T

PROPERTY = 'C09'
LEVEL = 'model_checking'
REACH_POINTS = ['events.after_shift', 'events.checked', 'events.disabled', 'fresh.checked']

LOG = []


class Rec(pg.Object):
  d: pg.typing.Dict() = pg.Dict()
  l: pg.typing.List(pg.typing.Any()) = pg.List()
  n: pg.typing.Int() = 0
  c: pg.typing.Any() = None

  def _on_change(self, field_updates):
    LOG.append((self, dict(field_updates)))
    return super()._on_change(field_updates)


class Quiet(pg.Object):
  """An object that does not subscribe (no _on_change override)."""
  q: pg.typing.Any() = None
  r: pg.typing.Any() = None


def _cb(holder):
  def cb(field_updates):
    LOG.append((holder[0], dict(field_updates)))
  return cb


def t_events(v):
  h1, h2, h3 = [None], [None], [None]
  d = pg.Dict(a=v[0], sub=pg.Dict(b=v[1], deep=pg.Dict(e=v[2])), onchange_callback=_cb(h1))
  h1[0] = d
  l = pg.List([pg.Dict(q=v[2]), v[3], Quiet(q=pg.Dict(x=v[0]), r=v[1])], onchange_callback=_cb(h2))
  h2[0] = l
  inner = Rec(n=v[0], d=pg.Dict(z=v[1]), l=pg.List([v[2]]))
  plain = pg.Dict(p=pg.List([pg.Dict(k=v[3]), v[2], pg.Dict(k2=v[0])]), o=Quiet(q=v[0], r=pg.List([v[1], v[2]])))
  root = Rec(d=d, l=l, n=v[3], c=pg.Dict(inner=inner, plain=plain))
  return root


class P(pg.Object):
  x: pg.typing.Int()
  y: pg.typing.Int(default=5) = 5
  z: pg.typing.Any() = None


class PS(P):
  """Subscribes to its field updates the documented way: overrides _on_change (and does not chain up, like pg.Functor)."""

  def _on_change(self, field_updates):
    LOG.append((self, dict(field_updates)))


def t_fresh(v):
  return pg.Dict(
      sub=PS.partial(z=pg.Dict(k=v[0], deep=pg.List([P.partial()]))),
      part=P.partial(z=pg.Dict(k=v[0])),
      full=P(x=v[1], y=v[2]),
      hyper=pg.Dict(choice=pg.oneof([1, 2, 3]), inner=pg.List([pg.Dict(f=pg.floatv(0.0, 1.0))])),
      lst=pg.List([P(x=v[3]), pg.Dict(w=v[0])]),
      plain=pg.Dict(a=v[1]))


SKELS = dict(events=t_events, fresh=t_fresh)


def nodes_of(root):
  """Pre-order symbolic nodes, not descending into hyper values (placeholders are leaves here)."""
  out = []

  def walk(n):
    out.append(n)
    if isinstance(n, pg.hyper.HyperValue):
      return
    for _, c in n.sym_items():
      if isinstance(c, pg.Symbolic):
        walk(c)
  walk(root)
  return [n for n in out if not isinstance(n, pg.hyper.HyperValue)]


def _subscribes(n):
  if isinstance(n, Rec):
    return True
  if isinstance(n, (pg.Dict, pg.List)):
    return n._onchange_callback is not None     # (what the constructor was given)
  return False


def _snap_paths(root):
  """path string -> value for every location (containers and leaves)."""
  out = {}

  def walk(n, path):
    for k, c in n.sym_items():
      p = pg.KeyPath(k, path)
      out[str(p)] = c
      if isinstance(c, pg.Symbolic) and not isinstance(c, pg.hyper.HyperValue):
        walk(c, p)
  walk(root, pg.KeyPath())
  return out


def _lookup(snapshot, path):
  """Value at a path in a snapshot; a negative list index in the last key is normalised (Python semantics)."""
  key = path.key if len(path) else None
  if isinstance(key, int) and key < 0:
    prefix = str(path.parent)
    n = 0
    while (f'{prefix}[{n}]' if prefix else f'[{n}]') in snapshot:
      n += 1
    path = pg.KeyPath(key + n, path.parent)
  return snapshot.get(str(path), pg.MISSING_VALUE)


SHIFTING = {'insert', 'delitem', 'pop', 'remove', 'set_slice', 'del_slice', 'rebind_insert', 'rebind_missing', 'rebind_multi',
            'clear', 'reverse', 'sort_key', 'popitem'}


def h_events(params, v0, v1, v2, v3, t, i, vk, w, w2, mode):
  """All selectors are solver decisions made concrete by branching; the mutation and the oracle then run natively
  (leaf values play no role in notification: fixed constants, w also ranging over an already present value)."""
  t, i, vk, mode = concretize(t, range(0, 18)), concretize(i, range(0, 5)), concretize(vk, (0, 1)), concretize(mode, (0, 1))
  w = concretize(w, (1, 50)) if params['op'] in ('setitem', 'rebind_key', 'update') else 50
  with untraced():
    return _events_body(params, 1, 2, 3, 4, t, i, vk, w, 60, mode)


def _events_body(params, v0, v1, v2, v3, t, i, vk, w, w2, mode):
  """mode: 0 = notifications on, 1 = notify_on_change(False) scope."""
  op = params['op']
  root = t_events((v0, v1, v2, v3))
  nodes = nodes_of(root)
  if not 0 <= t < len(nodes):
    raise Assume()
  if vk == 0:
    val = w
  elif vk == 1:
    val = pg.Dict(nn=pg.List([w]))
  else:
    raise Assume()
  if not 0 <= mode <= (1 if not op.startswith('rebind') else 1):
    raise Assume()
  if i < 0:
    raise Assume()      # events name the location as the caller did (l[-1]); negative designators are outside the claim
  target = nodes[t]
  before = _snap_paths(root)
  ancestors = []
  a = target
  while a is not None:
    ancestors.append(a)
    a = a.sym_parent
  if op == 'rebind_deep2':
    ancestors = ancestors + [nodes[0]]
  del LOG[:]
  try:
    if mode == 1:
      with pg.notify_on_change(False):
        T.apply_op(op, root, nodes, t, i, val, w2)
    else:
      T.apply_op(op, root, nodes, t, i, val, w2)
  except T.EXPECTED_ERRORS:
    raise Assume()          # the contract is about calls that return normally
  log = list(LOG)
  after = _snap_paths(root)
  tag = f'{op}'
  if mode != 0:
    reach('events.disabled')
    if log:
      return Violation(f'event_delivered_while_disabled:{tag}', f'{len(log)} events')
    return None
  reach('events.checked')
  def _same(x, y):
    if isinstance(x, pg.Symbolic) or isinstance(y, pg.Symbolic):
      return x is y
    return x == y
  changed = any((k not in after) or (k not in before) or not _same(before[k], after[k]) for k in set(before) | set(after))
  # exactly once per receiver, only subscribers on the path root -> target, children before parents
  seen = []
  for recv, payload in log:
    if any(recv is s for s in seen):
      return Violation(f'receiver_notified_twice:{tag}', f'{type(recv).__name__} at {recv.sym_path}')
    seen.append(recv)
    if not any(recv is x for x in ancestors):
      return Violation(f'non_ancestor_notified:{tag}', f'{type(recv).__name__} at {recv.sym_path}')
    if not _subscribes(recv):
      return Violation(f'non_subscriber_notified:{tag}', str(recv.sym_path))
    if not payload:
      return Violation(f'empty_payload:{tag}', str(recv.sym_path))
  depths = [len(recv.sym_path) for recv, _ in log]
  if depths != sorted(depths, reverse=True):
    return Violation(f'parents_before_children:{tag}', str(depths))
  if changed and op != 'rebind_deep2':
    for x in ancestors:
      if _subscribes(x) and not any(x is r for r, _ in log):
        if x is target or x.sym_parent is not None or x is root:
          return Violation(f'affected_subscriber_not_notified:{tag}', f'{type(x).__name__} at {x.sym_path}')
  # (an event for a write of an equal value is tolerated: pyglove suppresses updates by object identity,
  # which for ints depends on the interpreter's small-int cache, not on the value)
  # payload truthfulness: new values are what the tree now holds there, old values what it held before
  for recv, payload in log:
    for rel, upd in payload.items():
      full = recv.sym_path + rel
      now = _lookup(after, full)
      if op not in SHIFTING:
        if isinstance(upd.new_value, pg.Symbolic):
          if now is not upd.new_value:
            return Violation(f'payload_new_value_wrong:{tag}', f'{full}')
        elif not (now == upd.new_value):
          return Violation(f'payload_new_value_wrong:{tag}', f'{full}: tree has {now!r}, event says {upd.new_value!r}')
        was = _lookup(before, full)
        if isinstance(upd.old_value, pg.Symbolic):
          if was is not upd.old_value:
            return Violation(f'payload_old_value_wrong:{tag}', f'{full}')
        elif not (was == upd.old_value):
          return Violation(f'payload_old_value_wrong:{tag}', f'{full}: tree had {was!r}, event says {upd.old_value!r}')
      if upd.path != full:
        return Violation(f'payload_absolute_path_wrong:{tag}', f'{upd.path} vs {full}')
  # completeness for non-shifting ops: every changed direct location of the target is reported to the
  # nearest subscriber.
  if op not in SHIFTING and changed and log:
    keys_changed = []
    tp = str(target.sym_path)
    for k in set(before) | set(after):
      p = pg.KeyPath.parse(k) if False else None
    direct = {}
    for snap_name, snap_ in (('b', before), ('a', after)):
      for k, val_ in snap_.items():
        direct.setdefault(k, {})[snap_name] = val_
    for k, ba in direct.items():
      kp = pg.KeyPath.parse(k)
      if str(kp.parent) != tp:
        continue
      b_, a_ = ba.get('b', pg.MISSING_VALUE), ba.get('a', pg.MISSING_VALUE)
      same = (b_ is a_) or (not isinstance(b_, pg.Symbolic) and not isinstance(a_, pg.Symbolic) and b_ == a_)
      if not same:
        keys_changed.append(kp)
    recv, payload = log[0]
    for kp in keys_changed:
      rel = kp - recv.sym_path
      if not any(str(r) == str(rel) for r in payload):
        return Violation(f'changed_location_missing_from_payload:{tag}', f'{kp} not in {[str(r) for r in payload]}')
  return None


SHIFT_FIRST = ['rebind_multi', 'rebind_multi_far', 'insert', 'delitem', 'pop', 'rebind_insert', 'rebind_missing', 'set_slice',
               'del_slice', 'reverse', 'remove', 'iadd']


def h_events_after_shift(params, i, k, vk):
  """Two calls: an index-shifting operation on a list of subscribing containers, then an ordinary write inside one of its
  (possibly shifted) elements. The second call's events name the element's location as it is now."""
  op = params['op']
  i, k, vk = concretize(i, range(0, 5)), concretize(k, range(0, 5)), concretize(vk, (0, 1))
  with untraced():
    h = [None]
    lst = pg.List([pg.Dict(a=1), pg.Dict(a=2), pg.Dict(a=3), pg.Dict(a=4)], onchange_callback=_cb(h))
    h[0] = lst
    h2 = [None]
    root = pg.Dict(l=lst, n=0, onchange_callback=_cb(h2))      # (untyped: the missing-value marker deletes list elements)
    h2[0] = root
    lst = root.l
    h[0] = lst
    nodes = nodes_of(root)
    t = [x for x, n_ in enumerate(nodes) if n_ is lst][0]
    val = 50 if vk == 0 else pg.Dict(a=50)
    try:
      T.apply_op(op, root, nodes, t, i, val, 60)
    except T.EXPECTED_ERRORS:
      raise Assume()
    kids = [(idx, c) for idx, c in enumerate(lst) if isinstance(c, pg.Dict)]
    if not 0 <= k < len(kids):
      raise Assume()
    idx, child = kids[k]
    reach('events.after_shift')
    del LOG[:]
    child.a = 99
    log = list(LOG)
    want = {id(lst): f'[{idx}].a', id(root): f'l[{idx}].a'}
    seen = set()
    for recv, payload in log:
      if id(recv) not in want:
        return Violation(f'after_shift:{op}:unexpected_receiver', type(recv).__name__)
      seen.add(id(recv))
      keys = [str(r) for r in payload]
      if keys != [want[id(recv)]]:
        return Violation(f'after_shift:{op}:event_names_other_location', f'element now at index {idx}; '
                         f'{type(recv).__name__} was told {keys!r}, expected {want[id(recv)]!r}')
      upd = list(payload.values())[0]
      if upd.new_value != 99 or str(upd.path) != f'l[{idx}].a':
        return Violation(f'after_shift:{op}:payload_wrong', f'{upd.path} {upd.new_value!r}')
    if seen != set(want):
      return Violation(f'after_shift:{op}:subscriber_not_notified', f'{len(seen)} of 2 subscribers')
  return None


def _facts(n):
  return dict(partial=n.sym_partial, missing=pg.to_json(n.sym_missing(flatten=True)),
              nondefault=sorted(str(k) for k in n.sym_nondefault(flatten=True)),
              puresymbolic=n.sym_puresymbolic, deterministic=pg.is_deterministic(n), abstract=n.sym_abstract)


def h_fresh(params, v0, v1, v2, v3, t, i, vk, w, w2, mode):
  # lazily: the target first; index, value kind and mode only for (operation, node) pairs the operation applies to
  with untraced():
    nodes0 = nodes_of(t_fresh((1, 2, 3, 4)))
  t = concretize(t, range(len(nodes0)))
  if not T.applicable(params['op'], nodes0[t], t):
    raise Assume()
  n = T.fanout(nodes0[t])
  i, vk, mode = concretize(i, range(-1, n + 2)), concretize(vk, (0, 1, 2, 3)), concretize(mode, (0, 1))
  with untraced():
    return _fresh_body(params, 1, 2, 3, 4, t, i, vk, 50, 60, mode)


def _fresh_body(params, v0, v1, v2, v3, t, i, vk, w, w2, mode):
  op = params['op']
  root = t_fresh((v0, v1, v2, v3))
  nodes = nodes_of(root)
  if not 0 <= t < len(nodes):
    raise Assume()
  if vk == 0:
    val = w
  elif vk == 1:
    val = pg.Dict(nn=pg.List([w]))
  elif vk == 2:
    val = pg.oneof([w, 7])
  elif vk == 3:
    val = P.partial()
  else:
    raise Assume()
  if not 0 <= mode <= 1:
    raise Assume()
  for n in nodes:
    _facts(n)        # populate the memoised facts before the mutation
  try:
    with pg.allow_writable_accessors(True):
      if mode == 1:
        with pg.notify_on_change(False):
          T.apply_op(op, root, nodes, t, i, val, w2)
      else:
        T.apply_op(op, root, nodes, t, i, val, w2)
  except T.EXPECTED_ERRORS:
    pass
  reach('fresh.checked')
  fresh_root = root.clone(deep=True)
  for n, f in zip(nodes_of(root), nodes_of(fresh_root)):
    a, b = _facts(n), _facts(f)
    if a != b:
      which = '+'.join(k for k in a if a[k] != b[k])
      if mode == 1:
        return Violation('stale_derived_fact:inside_notify_on_change_False', f'{op}: {which} at {n.sym_path}')
      return Violation(f'stale_derived_fact:{op}', f'{which} at {n.sym_path}: reported {a} fresh {b}')
  return None


def h_events_m(params, v0, v1, v2, v3, t, i, vk, w, w2, mode):
  if params.get('mode') is not None and mode != params['mode']:
    raise Assume()       # shard-level cut: the notification mode
  return h_events(params, v0, v1, v2, v3, t, i, vk, w, w2, mode)


def h_fresh_m(params, v0, v1, v2, v3, t, i, vk, w, w2, mode):
  if params.get('mode') is not None and mode != params['mode']:
    raise Assume()
  return h_fresh(params, v0, v1, v2, v3, t, i, vk, w, w2, mode)


_ARGS = [('v0', 'int'), ('v1', 'int'), ('v2', 'int'), ('v3', 'int'), ('t', 'int'), ('i', 'int'), ('vk', 'int'), ('w', 'int'),
         ('w2', 'int'), ('mode', 'int')]
EVENT_OPS = ['setitem', 'setattr', 'delitem', 'append', 'extend', 'insert', 'pop', 'set_slice', 'update', 'setdefault',
             'rebind_key', 'rebind_kwargs', 'rebind_idx', 'rebind_deep', 'rebind_deep2', 'rebind_missing', 'rebind_fn', 'iadd',
             'ior', 'clear', 'reverse', 'remove', 'del_slice', 'popitem', 'rebind_insert', 'rebind_multi']


QUICK_SKIP = {'rebind_kwargs', 'rebind_fn', 'remove', 'del_slice', 'rebind_missing', 'setattr', 'extend', 'setdefault'}


def shards(tier, seed):
  quick = tier == 'quick'
  out = []
  b = 60 if quick else 400
  ops = EVENT_OPS
  heavy = {'setattr', 'delitem', 'setitem', 'pop', 'rebind_key', 'rebind_kwargs', 'rebind_deep', 'rebind_deep2', 'rebind_missing',
           'rebind_fn', 'clear', 'update'}
  for op in ops:
    for fam, fn in (('events', 'h_events_m'), ('fresh', 'h_fresh_m')):
      if op in heavy:      # one shard per notification mode (half the path tree each)
        for mode in (0, 1):
          out.append(dict(name=f'{fam}:{op}:mode{mode}', fn=fn, params=dict(op=op, mode=mode), args=_ARGS, budget_s=b * 2,
                          expect_s=50, per_path_s=15))
      else:
        out.append(dict(name=f'{fam}:{op}', fn=fn, params=dict(op=op), args=_ARGS, budget_s=b * 2, expect_s=30, per_path_s=15))
  for op in SHIFT_FIRST:
    out.append(dict(name=f'after_shift:{op}', fn='h_events_after_shift', params=dict(op=op), args=[('i', 'int'), ('k', 'int'), ('vk', 'int')],
                    budget_s=b, expect_s=10, per_path_s=15))
  return out


META = dict(
    rule='Shard = (events | freshness, mutating op); symbolic: target node, index/key selector, inserted value kind '
         '(leaf / subtree / placeholder / partial object), notification mode, leaf ints.',
    bounds=['two skeleton trees (events: 3 subscribing containers + 2 subscribing objects + non-subscribers, depth 4; '
            'freshness: partial object, placeholders, typed defaults)', 'operations: ' + ', '.join(EVENT_OPS),
            'one mutating call per path (batched rebind with <= 2 paths)'],
    stubs=['CrossHair format() of symbolic non-str values returns "<sym>"'],
    outside_claim=['event locations for writes addressed with negative list indices (reported as given)', 'old-value payload of index-shifting list operations (compared for non-shifting ops only)',
                   'histories longer than one call', 'user _on_bound side effects'],
    assumptions=['a fresh computation = the same facts queried on a deep clone built after the mutation'],
)
