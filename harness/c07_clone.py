"""C07 — clone fidelity (equal, same class/spec/flags, own well-formed tree, no shared symbolic
node) and independence (one symbolic mutation of either side is not observable through the other)."""
import copy

import pyglove as pg
from engine.chx import Assume, Violation, reach, untraced, concretize
from harness import treeops as T

PROPERTY = 'C07'
LEVEL = 'model_checking'
REACH_POINTS = ['custom', 'fidelity', 'independence.applied', 'leaf_sharing']

CLONE_KINDS = ['clone', 'clone_deep', 'copy', 'deepcopy']
DEEP = {'clone_deep', 'deepcopy'}


class Opaque:
  """A mutable non-symbolic leaf object."""

  def __init__(self, v):
    self.v = v

  def __eq__(self, other):
    return isinstance(other, Opaque) and self.v == other.v

  def __hash__(self):
    return 0


class Typed(pg.Object):
  a: pg.typing.Int(min_value=-100) = 0
  items: pg.typing.List(pg.typing.Dict([('k', pg.typing.Int())])) = pg.List()
  opt: pg.typing.Dict([('r', pg.typing.Int()), ('s', pg.typing.Int(default=1))]).noneable() = None


def t_typed(v):
  return Typed(a=v[0], items=[dict(k=v[1]), dict(k=v[2])], opt=dict(r=v[3]))


def t_partial(v):
  return Typed.partial(a=v[0], items=[dict(k=v[1])], opt=dict(s=v[2]))


def t_leafy(v):
  return pg.Dict(o=Opaque(v[0]), l=pg.List([Opaque(v[1]), pg.Dict(q=Opaque(v[2]))]), t=(v[3], pg.Dict(w=v[0]), (pg.Dict(u=v[1]), (pg.List([v[2]]), 7))))


def t_ref(v):
  shared = pg.Dict(sh=v[0])
  return pg.Dict(holder=T.RefHolder(r=pg.Ref(shared), k=pg.List([v[1]])), own=pg.Dict(z=v[2]))


SKELS = dict(T.SKELETONS)
SKELS.update(typed=t_typed, partial=t_partial, leafy=t_leafy, ref=t_ref)


def snap(x):
  """Structural snapshot (works for values that to_json cannot serialize, e.g. pg.Ref)."""
  if isinstance(x, pg.Ref):
    return ('ref', id(x.value))
  if isinstance(x, pg.Symbolic):
    return (type(x).__name__, [(k, snap(x.sym_getattr(k))) for k in x.sym_keys()])
  if isinstance(x, Opaque):
    return ('opaque', x.v)
  if isinstance(x, tuple):
    return tuple(snap(e) for e in x)
  return x


def _do_clone(kind, node):
  if kind == 'clone':
    return node.clone()
  if kind == 'clone_deep':
    return node.clone(deep=True)
  if kind == 'copy':
    return copy.copy(node)
  if kind == 'deepcopy':
    return copy.deepcopy(node)
  raise AssertionError(kind)


def _flags(n):
  return (type(n), n.is_sealed, n.accessor_writable, n.allow_partial,
          getattr(n, 'value_spec', None) is not None if not isinstance(n, pg.Object) else True)


def _pairs(a, b, out):
  """Corresponding symbolic nodes of two equal trees."""
  out.append((a, b))
  ka, kb = list(a.sym_keys()), list(b.sym_keys())
  for k in ka:
    if k in kb:
      ca, cb = a.sym_getattr(k), b.sym_getattr(k)
      if isinstance(ca, pg.Symbolic) and isinstance(cb, pg.Symbolic):
        _pairs(ca, cb, out)
  return out


def _leaf_objects(n, out):
  def visit(c):
    if isinstance(c, pg.Symbolic):
      _leaf_objects(c, out)
    elif isinstance(c, Opaque):
      out.append(c)
    elif isinstance(c, tuple):
      for e in c:
        visit(e)
  for _, c in n.sym_items():
    visit(c)
  return out


def _symbolic_nodes_through_tuples(n, out):
  """Every symbolic container reachable from n, including those held inside (nested) tuples."""
  def visit(c):
    if isinstance(c, pg.Ref):
      return
    if isinstance(c, pg.Symbolic):
      out.append(c)
      for _, e in c.sym_items():
        visit(e)
    elif isinstance(c, tuple):
      for e in c:
        visit(e)
  visit(n)
  return out


def _setup(params, v, t, sealed, acc_off):
  if params['skel'] in ('typed', 'partial') and v[0] < -100:
    raise Assume()
  root = SKELS[params['skel']](v)
  nodes = T.nodes_of(root)
  if not 0 <= t < len(nodes):
    raise Assume()
  node = nodes[t]
  if acc_off:
    if isinstance(node, pg.Object):
      raise Assume()
    node.set_accessor_writable(False)
  if sealed:
    node.seal(True)
  return root, nodes, node


def fidelity(kind, root, node, c):
  tag = f'{kind}'
  if type(c) is not type(node):
    return Violation(f'{tag}:class_differs', f'{type(c)} vs {type(node)}')
  if not pg.eq(c, node) or not pg.eq(node, c):
    return Violation(f'{tag}:not_equal', f'{c!r} vs {node!r}')
  if c.sym_parent is not None or len(c.sym_path):
    return Violation(f'{tag}:copy_not_a_root', f'parent={type(c.sym_parent).__name__} path={c.sym_path}')
  r = T.inv(c)
  if r is not None:
    return Violation(f'{tag}:copy_tree:{r[0]}', r[1])
  orig = {id(n) for n in T.nodes_of(root)}
  for n in T.nodes_of(c):
    if id(n) in orig:
      return Violation(f'{tag}:shares_symbolic_node', str(n.sym_path))
  for a, b in _pairs(node, c, []):
    if _flags(a) != _flags(b):
      fa, fb = _flags(a), _flags(b)
      names = ['class', 'sealed', 'accessor_writable', 'allow_partial', 'has_value_spec']
      which = [nm for nm, x, y in zip(names, fa, fb) if x != y]
      return Violation(f'{tag}:flag_differs:{type(a).__name__ if not isinstance(a, pg.Object) else "Object"}:{"+".join(which)}',
                       f'at {a.sym_path}: {fa} vs {fb}')
    if not isinstance(a, pg.Object) and getattr(a, 'value_spec', None) is not getattr(b, 'value_spec', None):
      if getattr(a, 'value_spec', None) != getattr(b, 'value_spec', None):
        return Violation(f'{tag}:value_spec_differs', str(a.sym_path))
  return None


@pg.functor()
def _fn2(a, b=2, c=3):
  return (a, b, c)


CUSTOM_KINDS = ['functor_rebind', 'functor_rebind_default', 'dna_metadata', 'dna_userdata', 'dna_sealed']


def h_custom(params, kind, ck, side):
  """Classes with their own clone code (functors: bound / specified argument sets; DNA: metadata, user data and their
  cloneable-key sets): one later change on either side is not observable through the other."""
  kind, ck, side = concretize(kind, range(len(CUSTOM_KINDS))), concretize(ck, range(len(CLONE_KINDS))), bool(side)
  with untraced():
    kname, how = CUSTOM_KINDS[kind], CLONE_KINDS[ck]
    reach('custom')
    if kname.startswith('functor'):
      x = _fn2(1)
      y = _do_clone(how, x)
      target, other = (y, x) if side else (x, y)
      before = (other.specified_args, dict(other.bound_args) if hasattr(other.bound_args, 'items') else set(other.bound_args), other())
      target.rebind(b=5 if kname == 'functor_rebind' else 2)
      try:
        got = other(b=9)
      except TypeError as e:
        return Violation(f'custom:{kname}:{how}:other_side_refuses_late_binding', f'after rebinding b on the {"clone" if side else "original"}: {e!r}'[:300])
      if got != (1, 9, 3):
        return Violation(f'custom:{kname}:{how}:other_side_result', repr(got))
      after = (other.specified_args, dict(other.bound_args) if hasattr(other.bound_args, 'items') else set(other.bound_args), other())
      if after != before:
        return Violation(f'custom:{kname}:{how}:other_side_bookkeeping_changed', f'{before!r} -> {after!r}')
      return None
    d = pg.DNA([0, 1])
    d.set_metadata('m0', 1, cloneable=True)
    d.set_userdata('u0', 1, cloneable=True)
    if kname == 'dna_sealed':
      d.seal()
      try:
        c = _do_clone(how, d)
      except Exception as e:  # pylint: disable=broad-except
        return Violation(f'custom:dna_sealed:{how}:clone_raises:{type(e).__name__}', repr(e)[:200])
      if not c.is_sealed or not pg.eq(c, d) or dict(c.metadata) != {'m0': 1}:
        return Violation(f'custom:dna_sealed:{how}:clone_differs', f'sealed={c.is_sealed} metadata={dict(c.metadata)!r}')
      return None
    c = _do_clone(how, d)
    target, other = (c, d) if side else (d, c)
    before = pg.to_json(other)
    setter = 'set_metadata' if kname == 'dna_metadata' else 'set_userdata'
    getattr(target, setter)('k', 5, cloneable=True)
    if pg.to_json(other) != before:
      return Violation(f'custom:{kname}:{how}:other_side_serialization_changed', f'{before!r} -> {pg.to_json(other)!r}'[:400])
    getattr(other, setter)('k', 7, cloneable=False)
    c2 = other.clone()
    store = c2.metadata if kname == 'dna_metadata' else c2.userdata
    if 'k' in store:
      return Violation(f'custom:{kname}:{how}:non_cloneable_value_carried_over', repr(dict(store)))
  return None


def _count_nodes(skel):
  with untraced():
    return len(T.nodes_of(SKELS[skel]((1, 2, 3, 4))))


def h_fidelity(params, v0, v1, v2, v3, t, ck, sealed, acc_off, sc, sa):
  """Selectors are solver decisions made concrete by branching; cloning and the oracle run natively."""
  t = concretize(t, range(_count_nodes(params['skel'])))
  ck, sc, sa = concretize(ck, range(len(CLONE_KINDS))), concretize(sc, range(4)), concretize(sa, range(4))
  sealed, acc_off = bool(sealed), bool(acc_off)
  with untraced():
    return _fidelity_body(params, 1, 2, 3, 4, t, ck, sealed, acc_off, sc, sa)


def _fidelity_body(params, v0, v1, v2, v3, t, ck, sealed, acc_off, sc, sa):
  v = (v0, v1, v2, v3)
  root, nodes, node = _setup(params, v, t, sealed, acc_off)
  if not 0 <= ck < len(CLONE_KINDS):
    raise Assume()
  kind = CLONE_KINDS[ck]
  before = snap(root)
  # cloning inside scoped overrides must still copy the object's own flags
  import contextlib
  with contextlib.ExitStack() as st:
    for sel, mgr in ((sc, pg.as_sealed), (sa, pg.allow_writable_accessors)):
      if not 0 <= sel <= 3:
        raise Assume()
      if sel:
        st.enter_context(mgr([None, True, False][sel - 1]))
    c = _do_clone(kind, node)
  reach('fidelity')
  viol = fidelity(kind, root, node, c)
  if viol is not None:
    return viol
  after = snap(root)
  if before != after or T.inv(root) is not None:
    return Violation(f'{kind}:cloning_modified_original', '')
  if params['skel'] == 'leafy':
    reach('leaf_sharing')
    lo, lc = _leaf_objects(node, []), _leaf_objects(c, [])
    shared = {id(x) for x in lo} & {id(x) for x in lc}
    if kind in DEEP and shared:
      return Violation(f'{kind}:deep_clone_shares_leaf_object', '')
    if kind not in DEEP and len(shared) != len(lo):
      return Violation(f'{kind}:shallow_clone_copied_leaf_object', '')
    # symbolic containers nested inside tuples must be copied too
    ids = {id(x) for x in _symbolic_nodes_through_tuples(node, [])}
    for x in _symbolic_nodes_through_tuples(c, []):
      if id(x) in ids:
        return Violation(f'{kind}:shares_symbolic_node_inside_tuple', f'{type(x).__name__} {x!r}'[:200])
  if params['skel'] == 'ref' and t == 0:
    if c.holder.sym_getattr('r').value is not root.holder.sym_getattr('r').value and kind not in DEEP:
      return Violation(f'{kind}:reference_target_not_shared', '')
  return None


def h_independence(params, v0, v1, v2, v3, t, ck, side, t2, i, vk, w):
  """Clone, then one symbolic mutation on either side; the other side must not change."""
  nn = _count_nodes(params['skel'])
  # the cloned node: the root (quick) or any node (thorough); clone kind; mutated side
  t = concretize(t, range(nn if params.get('any_node') else 1))
  ck, side = concretize(ck, range(len(CLONE_KINDS))), bool(side)
  # mutation target: lazily, only nodes the operation applies to (positions in the clone equal those in the original)
  with untraced():
    nodes = T.nodes_of(SKELS[params['skel']]((1, 2, 3, 4)))
  t2 = concretize(t2, range(len(nodes)))
  if not T.applicable(params['op'], nodes[t2], t2):
    raise Assume()
  n2 = T.fanout(nodes[t2])
  i, vk = concretize(i, range(-n2 - 1, n2 + 2)), concretize(vk, (0, 1))
  with untraced():
    return _independence_body(params, 1, 2, 3, 4, t, ck, side, t2, i, vk, 50)


def _independence_body(params, v0, v1, v2, v3, t, ck, side, t2, i, vk, w):
  v = (v0, v1, v2, v3)
  root, nodes, node = _setup(params, v, t, False, False)
  if not 0 <= ck < len(CLONE_KINDS):
    raise Assume()
  kind = CLONE_KINDS[ck]
  c = _do_clone(kind, node)
  if side:
    mutated, other = c, root
  else:
    mutated, other = root, c
  before = (snap(other), pg.hash(other))
  mnodes = T.nodes_of(mutated)
  if vk == 0:
    val = w
  elif vk == 1:
    val = pg.Dict(n=pg.List([w]))
  else:
    raise Assume()
  try:
    with pg.allow_writable_accessors(True):
      T.apply_op(params['op'], mutated, mnodes, t2, i, val, w)
    reach('independence.applied')
  except T.EXPECTED_ERRORS:
    pass
  after = (snap(other), pg.hash(other))
  if before != after:
    return Violation(f'{kind}:mutation_visible_through_{"original" if side else "copy"}:{params["op"]}', '')
  r = T.inv(other)
  if r is not None:
    return Violation(f'{kind}:mutation_broke_other_tree:{params["op"]}:{r[0]}', r[1])
  return None


_FA = [('v0', 'int'), ('v1', 'int'), ('v2', 'int'), ('v3', 'int'), ('t', 'int'), ('ck', 'int'), ('sealed', 'bool'),
       ('acc_off', 'bool'), ('sc', 'int'), ('sa', 'int')]
_IA = [('v0', 'int'), ('v1', 'int'), ('v2', 'int'), ('v3', 'int'), ('t', 'int'), ('ck', 'int'), ('side', 'bool'), ('t2', 'int'),
       ('i', 'int'), ('vk', 'int'), ('w', 'int')]
IND_OPS = ['setitem', 'delitem', 'append', 'insert', 'reverse', 'update', 'rebind_key', 'rebind_deep', 'clear', 'setattr',
           'iadd', 'pop', 'set_slice']


def shards(tier, seed):
  quick = tier == 'quick'
  out = []
  b = 40 if quick else 400
  for skel in SKELS:
    out.append(dict(name=f'fidelity:{skel}', fn='h_fidelity', params=dict(skel=skel), args=_FA, budget_s=b * 2, per_path_s=15))
  out.append(dict(name='custom', fn='h_custom', params={}, args=[('kind', 'int'), ('ck', 'int'), ('side', 'bool')], budget_s=b, per_path_s=15))
  iskels = ['list', 'dict', 'obj', 'typed'] if quick else ['list', 'dict', 'obj', 'mixed', 'flat', 'typed', 'partial', 'ref']
  for skel in iskels:
    for op in (IND_OPS if quick else T.MUTATING):
      if not T.op_fits(op, skel):
        continue
      out.append(dict(name=f'indep:{skel}:{op}', fn='h_independence', params=dict(skel=skel, op=op, any_node=not quick), args=_IA,
                      budget_s=b, per_path_s=15))
  return out


META = dict(
    rule='Shard = skeleton tree (fidelity) or (skeleton, mutating op) (independence); symbolic: cloned node, clone '
         'kind (clone / clone(deep) / copy.copy / copy.deepcopy), sealed and accessor-writable bits, mutated side, '
         'mutation target, index/key, inserted value kind, leaf ints.',
    bounds=['skeleton trees: ' + ', '.join(SKELS), 'one mutation after cloning (disjointness is part of the invariant, '
            'so one step suffices)', 'mutations: ' + ', '.join(T.MUTATING)],
    stubs=['CrossHair format() of symbolic non-str values returns "<sym>"'],
    outside_claim=['clone(override=...)', 'Functor / ClassWrapper / DNA / hyper-value clones', 'memo sharing across clones'],
    assumptions=[],
)
