"""C11 — search-space enumeration is exact.

Skeleton = a DNASpec built by the real geno constructors from a small descriptor; the DNA
values are symbolic ints. An independent reference predicate V over the descriptor decides
validity. Obligations: E1 validate/bind <=> V (failures are ValueError); E2 first is valid
and minimal; E3 successor lemma; E4 `<` is the lexicographic order of the decisions;
E5 iteration length == space_size (concrete cross-check) + size recurrence == defining
sum for symbolic sub-space sizes; E6 random_dna (symbolic RNG) lands in V and Sweeping
proposes the iteration sequence.
"""
import importlib
import itertools

import pyglove as pg
from pyglove.core import geno
from engine.chx import Assume, Violation, reach, untraced, concretize

PROPERTY = 'C11'
LEVEL = 'model_checking'
REACH_POINTS = ['E1.valid', 'E1.invalid', 'E1.corrupt', 'E2', 'E3.has_next', 'E3.last', 'E4', 'E5.iter', 'E5.size_lemma',
                'E6.random', 'E6.sweep']

C = 'const'


def ch(k, cands, distinct=False, sorted_=False):
  return ('choices', k, cands, distinct, sorted_)


def sp(*elems):
  return ('space', list(elems))


ONE2 = ch(1, [C, C])
ONE3 = ch(1, [C, C, C])
SPECS = {
    'one3': ONE3,
    'm23': ch(2, [C, C, C]), 'm23_d': ch(2, [C, C, C], True), 'm23_s': ch(2, [C, C, C], False, True),
    'm23_ds': ch(2, [C, C, C], True, True),
    'm34': ch(3, [C, C, C, C]), 'm34_d': ch(3, [C, C, C, C], True), 'm34_s': ch(3, [C, C, C, C], False, True),
    'm34_ds': ch(3, [C, C, C, C], True, True),
    'nest1': ch(1, [C, sp(ONE2), sp(ch(2, [C, C, C], True, True))]),
    'space3': sp(ONE3, ch(2, [C, C, C], True, True), ch(1, [C, sp(ONE2)])),
    'm2nest': ch(2, [C, sp(ONE2), C]),
    'm2nest_ds': ch(2, [sp(ONE2), C, sp(ONE3)], True, True),
    'deep': ch(1, [sp(ch(1, [C, sp(ONE2, ONE2)])), C]),
    'float1': sp(('float', 0.0, 1.0), ONE2),
    'custom1': sp(('custom',), ONE2),
}
FINITE = [k for k in SPECS if k not in ('float1', 'custom1')]


def build_spec(desc):
  if desc == C:
    return geno.constant()
  kind = desc[0]
  if kind == 'space':
    return geno.space([build_spec(e) for e in desc[1]])
  if kind == 'choices':
    _, k, cands, distinct, sorted_ = desc
    cs = [build_spec(c) if c != C else geno.constant() for c in cands]
    if k == 1:
      return geno.oneof(cs)
    return geno.manyof(k, cs, distinct=distinct, sorted=sorted_)
  if kind == 'float':
    return geno.floatv(desc[1], desc[2])
  if kind == 'custom':
    return geno.custom()
  raise AssertionError(desc)


_SPEC_CACHE = {}


def get_spec(name):
  if name not in _SPEC_CACHE:
    s = build_spec(SPECS[name])
    if not isinstance(s, geno.Space):
      s = geno.space([s])
    _SPEC_CACHE[name] = s
  return _SPEC_CACHE[name]


class Cursor:
  def __init__(self, vals, conc=None):
    self.vals = vals
    self.i = 0
    self.used = []
    self.conc = conc        # candidate values: each consumed decision is made concrete by solver branching (lazily)

  def next(self):
    if self.i >= len(self.vals):
      raise Assume()
    v = self.vals[self.i]
    if self.conc is not None:
      v = concretize(v, self.conc)
    self.i += 1
    self.used.append(v)
    return v


def mk_dna(desc, cur):
  """DNA-shaped value for the descriptor, decisions drawn from the cursor (same construction
  style as the library's own next_dna: DNA(choice, [sub-DNA]))."""
  if desc == C:
    return pg.DNA(None)
  kind = desc[0]
  if kind == 'space':
    return pg.DNA(None, [mk_dna(e, cur) for e in desc[1]])
  if kind == 'choices':
    _, k, cands, _, _ = desc
    subs = []
    for _ in range(k):
      v = cur.next()
      if 0 <= v < len(cands):
        subs.append(pg.DNA(v, [mk_dna(cands[v], cur)]))
      else:
        subs.append(pg.DNA(v))
    return subs[0] if k == 1 else pg.DNA(None, subs)
  if kind == 'float':
    v = cur.next()
    return pg.DNA(v / 4.0)
  if kind == 'custom':
    cur.next()
    return pg.DNA('abc')
  raise AssertionError(desc)


def ref_valid(desc, cur, strict=False):
  """Independent validity predicate V (consumes the same decisions in the same order).
  strict: discard the path (Assume) at the first violated constraint instead of returning False."""
  if desc == C:
    return True
  kind = desc[0]
  if kind == 'space':
    ok = True
    for e in desc[1]:
      if not ref_valid(e, cur, strict):
        ok = False
    return ok
  if kind == 'choices':
    _, k, cands, distinct, sorted_ = desc
    ok = True
    vals = []
    for _ in range(k):
      v = cur.next()
      if 0 <= v < len(cands):
        for u in vals:
          if (distinct and u == v) or (sorted_ and u > v):
            if strict:
              raise Assume()
            ok = False
        if not ref_valid(cands[v], cur, strict):
          ok = False
      else:
        if strict:
          raise Assume()
        ok = False
      vals.append(v)
    return ok
  if kind == 'float':
    v = cur.next()
    return desc[1] <= v / 4.0 <= desc[2]
  if kind == 'custom':
    cur.next()
    return True
  raise AssertionError(desc)


def _decisions(name, vals, strict=False, conc=None):
  cur = Cursor(vals, conc)
  ok = ref_valid(SPECS[name], cur, strict)
  if strict and not ok:
    raise Assume()
  return ok, list(cur.used)


_FIRST = {}


def _first_numbers(name):
  if name not in _FIRST:
    _FIRST[name] = get_spec(name).first_dna().to_numbers()
  return _FIRST[name]


def _dna(name, vals):
  cur = Cursor(vals)
  d = mk_dna(SPECS[name], cur)
  return d


def _lex_lt(a, b):
  for x, y in zip(a, b):
    if x < y:
      return True
    if x > y:
      return False
  return len(a) < len(b)


NV = 7
_VALS = lambda p: [(f'{p}{i}', 'int') for i in range(NV)]


def _bounded(vals, lo=-2, hi=5):
  """Decisions used to index candidate lists are realized by native indexing: bound them."""
  for v in vals:
    if not lo <= v <= hi:
      raise Assume()


def h_validate(params, d0, d1, d2, d3, d4, d5, d6):
  """E1: validate() and binding accept exactly V; failures are ValueError."""
  name = params['spec']
  vals = (d0, d1, d2, d3, d4, d5, d6)
  spec = get_spec(name)
  # every consumed decision is a solver variable made concrete by branching over [-2, 5]; the library then runs natively
  valid, used = _decisions(name, vals, conc=range(*params.get('drange', (-2, 6))))
  for t in range(len(used), NV):
    if vals[t] != 0:
      raise Assume()           # canonical form: unused decision variables are 0
  vals = tuple(used) + (0,) * (NV - len(used))
  with untraced():
    return _validate_body(name, spec, vals, valid, used)


def _validate_body(name, spec, vals, valid, used):
  reach('E1.valid' if valid else 'E1.invalid')
  for how in ('validate', 'bind', 'ctor', 'from_numbers'):
    dna = _dna(name, vals)
    try:
      if how == 'validate':
        spec.validate(dna)
      elif how == 'bind':
        dna.use_spec(spec)
      elif how == 'ctor':
        pg.DNA(dna.value, [c.clone(deep=True) for c in dna.children], spec=spec)
      else:
        if not valid or name in ('float1', 'custom1'):
          continue             # from_numbers reads the flat decision list of a well-formed DNA only
        back = pg.DNA.from_numbers(list(used), spec)
        if back.to_numbers() != list(used):
          return Violation('E1:from_numbers:does_not_round_trip', f'spec={name} decisions={used!r} -> {back.to_numbers()!r}')
      accepted = True
    except ValueError:
      accepted = False
    except (IndexError, TypeError, KeyError, AttributeError, AssertionError) as e:
      return Violation(f'E1:{how}:wrong_error:{type(e).__name__}', f'spec={name} decisions={used!r}')
    if accepted != valid:
      kind = 'accepts_invalid' if accepted else 'rejects_valid'
      neg = 'negative' if any(u < 0 for u in used) else 'nonneg'
      return Violation(f'E1:{how}:{kind}:{neg}', f'spec={name} decisions={used!r}')
  return None


CORRUPTIONS = ['extra_child', 'drop_child', 'float_for_int', 'none_value', 'str_value']


def h_corrupt(params, d0, d1, d2, d3, d4, d5, d6, which):
  """E1 (near-misses): a valid DNA with one structural corruption at the root is rejected."""
  name = params['spec']
  vals = (d0, d1, d2, d3, d4, d5, d6)
  spec = get_spec(name)
  valid, used = _decisions(name, vals, strict=True, conc=range(*params.get('drange', (-2, 6))))
  for t in range(len(used), NV):
    if vals[t] != 0:
      raise Assume()
  vals = tuple(used) + (0,) * (NV - len(used))
  which = concretize(which, range(len(CORRUPTIONS)))
  with untraced():
    return _corrupt_body(name, spec, vals, used, which)


def _corrupt_body(name, spec, vals, used, which):
  how = CORRUPTIONS[which]
  dna = _dna(name, vals)
  value, children = dna.value, [c.clone(deep=True) for c in dna.children]
  if how == 'extra_child':
    children = children + [pg.DNA(0)]
  elif how == 'drop_child':
    if not children:
      raise Assume()
    children = children[:-1]
    if len(children) == 1 and value is None:
      raise Assume()           # DNA normalisation collapses this form; not a near-miss of this spec
  elif how == 'float_for_int':
    if value is None:
      if not children or children[0].value is None:
        raise Assume()
      children[0] = pg.DNA(float(children[0].value) + 0.5, [c.clone(deep=True) for c in children[0].children])
    else:
      value = float(value) + 0.5
  elif how == 'none_value':
    if value is None:
      raise Assume()
    value = None
    if len(children) == 1:
      raise Assume()
  elif how == 'str_value':
    if value is None:
      raise Assume()
    value = 'x'
  reach('E1.corrupt')
  for api in ('validate', 'bind'):
    bad = pg.DNA(value, [c.clone(deep=True) for c in children])
    try:
      if api == 'validate':
        spec.validate(bad)
      else:
        bad.use_spec(spec)
    except ValueError:
      continue
    except (IndexError, TypeError, KeyError, AttributeError, AssertionError) as e:
      return Violation(f'E1c:{api}:wrong_error:{how}:{type(e).__name__}', f'spec={name} decisions={used!r}')
    return Violation(f'E1c:{api}:accepts_corrupted:{how}', f'spec={name} decisions={used!r} dna={bad!r}')
  return None


def h_first(params, e0, e1, e2, e3, e4, e5, e6):
  """E2: first_dna is valid and <= every valid DNA."""
  name = params['spec']
  evals = (e0, e1, e2, e3, e4, e5, e6)
  valid, used = _decisions(name, evals, strict=True)
  fnums = _first_numbers(name)
  fvalid, fused = _decisions(name, tuple(fnums) + (0,) * (NV - len(fnums)))
  if not fvalid or list(fused) != list(fnums):
    return Violation('E2:first_invalid', f'spec={name} first={fnums!r}')
  reach('E2')
  if _lex_lt(used, fnums):
    return Violation('E2:first_not_minimal', f'spec={name} first={fnums!r} smaller={used!r}')
  return None


def h_successor(params, d0, d1, d2, d3, d4, d5, d6, e0, e1, e2, e3, e4, e5, e6):
  """E3/E4: next(d) is the least valid DNA above d (or d is the greatest); `<` is lexicographic."""
  name = params['spec']
  spec = get_spec(name)
  dvals, evals = (d0, d1, d2, d3, d4, d5, d6), (e0, e1, e2, e3, e4, e5, e6)
  dv, dused = _decisions(name, dvals, strict=True)
  ev, eused = _decisions(name, evals, strict=True)
  d = _dna(name, dvals).use_spec(spec)
  e = _dna(name, evals).use_spec(spec)
  # E4 on this pair
  reach('E4')
  try:
    lt = d < e
    eq = d == e
  except ValueError as err:
    if len(dused) == len(eused):
      return Violation('E4:compare_raises', f'spec={name} d={dused!r} e={eused!r} {err!r}')
    lt = eq = None
  if lt is not None:
    if lt != _lex_lt(dused, eused) or eq != (list(dused) == list(eused)):
      return Violation('E4:order_not_lexicographic', f'spec={name} d={dused!r} e={eused!r} lt={lt} eq={eq}')
  if d.to_numbers() != list(dused):
    return Violation('E4:to_numbers', f'spec={name} decisions={dused!r} to_numbers={d.to_numbers()!r}')
  nx = spec.next_dna(d)
  if nx is None:
    reach('E3.last')
    if _lex_lt(dused, eused):
      return Violation('E3:stops_early', f'spec={name} d={dused!r} has no successor but {eused!r} is valid and greater')
    return None
  reach('E3.has_next')
  nnums = nx.to_numbers()
  nvalid, nused = _decisions(name, tuple(nnums) + (0,) * (NV - len(nnums)))
  if not nvalid or list(nused) != list(nnums):
    return Violation('E3:next_invalid', f'spec={name} d={dused!r} next={nnums!r}')
  try:
    spec.validate(nx)
  except ValueError:
    return Violation('E3:next_rejected_by_validate', f'spec={name} d={dused!r} next={nnums!r}')
  if not _lex_lt(dused, nnums):
    return Violation('E3:next_not_greater', f'spec={name} d={dused!r} next={nnums!r}')
  if _lex_lt(dused, eused) and _lex_lt(eused, nnums):
    return Violation('E3:skips_valid_dna', f'spec={name} d={dused!r} next={nnums!r} skipped={eused!r}')
  if nx.spec is None:
    return Violation('E3:next_unbound', f'spec={name}')
  return None


def _ref_enumerate(desc):
  """All decision tuples satisfying V, by brute force over the descriptor (concrete)."""
  if desc == C:
    return [()]
  kind = desc[0]
  if kind == 'space':
    out = [()]
    for e in desc[1]:
      out = [a + b for a in out for b in _ref_enumerate(e)]
    return out
  _, k, cands, distinct, sorted_ = desc
  out = []
  for combo in itertools.product(range(len(cands)), repeat=k):
    if distinct and len(set(combo)) != k:
      continue
    if sorted_ and list(combo) != sorted(combo):
      continue
    parts = [()]
    for v in combo:
      parts = [a + (v,) + b for a in parts for b in _ref_enumerate(cands[v])]
    out.extend(parts)
  return out


_ITER = {}


def _iteration(name):
  """Concrete facts about the skeleton (no symbolic input involved): computed once, untraced."""
  if name not in _ITER:
    with untraced():
      spec = get_spec(name)
      got = [tuple(d.to_numbers()) for d in spec.iter_dna()]
      algo = geno.Sweeping()
      algo.setup(spec)
      swept = []
      for _ in range(len(got)):
        swept.append(tuple(algo.propose().to_numbers()))
      # an exhausted sweep stays exhausted: every later request ends with StopIteration as well
      for _ in range(3):
        try:
          swept.append(('proposed after the end', tuple(algo.propose().to_numbers())))
        except StopIteration:
          pass
      # ... also with feedback reported in between, and for a second, independent pass of the same generator class
      algo2 = geno.Sweeping()
      algo2.setup(spec)
      again = []
      try:
        while len(again) <= len(got):
          d = algo2.propose()
          algo2.feedback(d, 0.0)
          again.append(tuple(d.to_numbers()))
      except StopIteration:
        pass
      if again != swept[:len(got)]:
        swept.append(('sweep with feedback differs', again[:3]))
      _ITER[name] = (got, swept, spec.space_size, sorted(_ref_enumerate(SPECS[name])))
  return _ITER[name]


def h_iter(params, n):
  """E5 (concrete cross-check, indexed by a symbolic n): the n-th iterated DNA is the n-th valid decision
  tuple in lexicographic order, the iteration has exactly space_size elements; Sweeping proposes the same
  sequence and then stops (E6)."""
  name = params['spec']
  got, swept, size, want = _iteration(name)
  reach('E5.iter')
  if len(got) != size:
    return Violation('E5:iteration_length_ne_space_size', f'spec={name} iterated={len(got)} space_size={size}')
  if len(got) != len(want):
    return Violation('E5:iteration_length_ne_valid_set', f'spec={name} iterated={len(got)} valid={len(want)}')
  if len(swept) != len(got):
    return Violation('E6:sweeping_length', f'spec={name} swept={len(swept)} iterated={len(got)}')
  if not 0 <= n < len(want):
    raise Assume()
  if got[n] != want[n]:
    return Violation('E5:iteration_differs_from_valid_set', f'spec={name} n={n} got={got[n]} want={want[n]}')
  reach('E6.sweep')
  if swept[n] != want[n]:
    return Violation('E6:sweeping_differs', f'spec={name} n={n} proposed={swept[n]!r} want={want[n]!r}')
  return None


def h_random(params, rng, prev):
  """E6: random_dna under every RNG outcome is a member of the valid set (and bound to the spec)."""
  name = params['spec']
  spec = get_spec(name)
  previous = None
  if params.get('with_previous'):
    items = list(spec.iter_dna())
    if not 0 <= prev < len(items):
      raise Assume()
    previous = items[prev]
  dna = spec.random_dna(rng, previous_dna=previous)
  reach('E6.random')
  nums = dna.to_numbers()
  ok, used = _decisions(name, tuple(nums) + (0,) * (NV - len(nums)))
  if not ok or list(used) != list(nums):
    return Violation('E6:random_dna_invalid', f'spec={name} dna={nums!r}')
  try:
    spec.validate(dna)
  except ValueError:
    return Violation('E6:random_dna_rejected', f'spec={name} dna={nums!r}')
  return None


# --- size lemma: recurrence == defining sum, sub-space sizes symbolic ---------------------
_space_mod = importlib.import_module('pyglove.core.geno.space')
_orig_size = _space_mod.Space.space_size


def _patched_size(self):
  v = getattr(self, '_vp_size', None)
  return v if v is not None else _orig_size.fget(self)


def _ref_size(s, k, distinct, sorted_):
  total = 0
  for combo in itertools.product(range(len(s)), repeat=k):
    if distinct and len(set(combo)) != k:
      continue
    if sorted_ and list(combo) != sorted(combo):
      continue
    p = 1
    for i in combo:
      p = p * s[i]
    total = total + p
  return total


def h_size(params, s0, s1, s2, s3):
  k, n, distinct, sorted_ = params['k'], params['n'], params['distinct'], params['sorted']
  sizes = [s0, s1, s2, s3][:n]
  for s in sizes:
    if s < 0:
      raise Assume()
    if params.get('bound') is not None and s > params['bound']:
      raise Assume()
  _space_mod.Space.space_size = property(_patched_size)
  try:
    spec = geno.manyof(k, [geno.constant() for _ in range(n)], distinct=distinct, sorted=sorted_)
    for c, sz in zip(spec.candidates, sizes):
      object.__setattr__(c, '_vp_size', sz)
    got = spec.space_size
  finally:
    _space_mod.Space.space_size = _orig_size
  reach('E5.size_lemma')
  if got != _ref_size(sizes, k, distinct, sorted_):
    return Violation(f'E5:size_recurrence:k{k}n{n}:{"d" if distinct else ""}{"s" if sorted_ else ""}',
                     f'sizes={sizes!r} got={got} want={_ref_size(sizes, k, distinct, sorted_)}')
  return None


QUICK_SPECS = ['one3', 'm23', 'm23_d', 'm23_s', 'm23_ds', 'm34_ds', 'm34_s', 'nest1', 'space3', 'm2nest', 'm2nest_ds', 'deep']


def shards(tier, seed):
  quick = tier == 'quick'
  out = []
  names = QUICK_SPECS if quick else FINITE
  b = 40 if quick else 600
  # E1 runs natively (cheap): every finite skeleton in both tiers
  for name in FINITE + ['float1', 'custom1']:
    drange = (-1, 5) if quick else (-2, 6)
    out.append(dict(name=f'E1:{name}', fn='h_validate', params=dict(spec=name, drange=drange), args=_VALS('d'), budget_s=b * 3, expect_s=30,
                    per_path_s=20))
    if name not in ('float1', 'custom1'):
      out.append(dict(name=f'E1c:{name}', fn='h_corrupt', params=dict(spec=name, drange=drange), args=_VALS('d') + [('which', 'int')],
                      budget_s=b * 3, expect_s=20, per_path_s=20))
  for name in names + ['float1', 'custom1']:
    if name != 'custom1':       # custom decision points have no random_dna by design (NotImplementedError)
      out.append(dict(name=f'E6r:{name}', fn='h_random', params=dict(spec=name), args=[('rng', 'rng'), ('prev', 'int')],
                      budget_s=b, per_path_s=20))
  for name in names:
    out.append(dict(name=f'E2:{name}', fn='h_first', params=dict(spec=name), args=_VALS('e'), budget_s=b, per_path_s=20))
    out.append(dict(name=f'E3:{name}', fn='h_successor', params=dict(spec=name), args=_VALS('d') + _VALS('e'),
                    budget_s=b * 2, per_path_s=20))
    out.append(dict(name=f'E5:{name}', fn='h_iter', params=dict(spec=name), args=[('n', 'int')], budget_s=b, per_path_s=30))
    if not quick:
      out.append(dict(name=f'E6rp:{name}', fn='h_random', params=dict(spec=name, with_previous=True),
                      args=[('rng', 'rng'), ('prev', 'int')], budget_s=b, per_path_s=20))
  for k, n in ([(2, 3), (3, 4)] if quick else [(2, 3), (3, 4), (2, 4), (3, 3), (4, 4)]):
    for distinct in (False, True):
      for sorted_ in (False, True):
        bound = 3 if (sorted_ and not distinct) else None     # `**` realizes its base: bounded there
        out.append(dict(name=f'E5s:k{k}n{n}:{int(distinct)}{int(sorted_)}', fn='h_size',
                        params=dict(k=k, n=n, distinct=distinct, sorted=sorted_, bound=bound),
                        args=[('s0', 'int'), ('s1', 'int'), ('s2', 'int'), ('s3', 'int')], budget_s=b, per_path_s=30))
  return out


META = dict(
    rule='Shard = (obligation, DNASpec skeleton); symbolic: up to 7 decision values per DNA (two DNAs for the '
         'successor lemma), corruption selector, RNG draws, candidate sub-space sizes.',
    bounds=['spec skeletons: ' + ', '.join(sorted(SPECS)),
            'decision values in [-2,5] ([-1,4] for E1 in the quick tier) where they index candidate lists; '
            'candidates <= 4, choices <= 3, nesting depth <= 3',
            'size lemma: sub-space sizes unbounded non-negative ints, except mode sorted-and-not-distinct (0..3)',
            'RNG: every draw a fresh solver variable in range; random() in {0, 1/4, 2/4, 3/4}'],
    stubs=['Space.space_size of candidates returns a symbolic int (size lemma shards only)',
           'random.Random replaced by engine.chx.SymRandom (every outcome a solver variable)',
           'CrossHair format() of symbolic non-str values returns "<sym>"'],
    outside_claim=['specs beyond the skeleton family', 'Float/custom decision points are not enumerable: E1/E6 only',
                   'random_dna with previous_dna only in the thorough tier'],
    assumptions=['E2-E4 imply by induction over the finite order that iteration yields exactly the valid set'],
)
