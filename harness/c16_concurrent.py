"""C16 — concurrent sampling on the in-memory backend (Engine B: symbolic schedules over the real code).

The functions of local_backend.py / dna_generator.py / evolution base.py that take part in a
sampling loop are re-read from /repo and transformed into statement-granular coroutines
(engine.yieldify) on every run; logical worker threads are generators; the schedule (a bounded
number of preemptions at arbitrary statement boundaries), the per-trial actions, group
assignment and rewards are solver variables. The quiescence invariant of the property is the
assertion. A violating schedule is replayed on real threads over the untransformed code
(engine.trace_replay) before it is reported.
"""
import os
import threading

import pyglove as pg
from pyglove.core import geno
import importlib
dg = importlib.import_module('pyglove.core.geno.dna_generator')
from pyglove.core.tuning import local_backend as lb
from pyglove.ext.evolution import base as ev_base
from pyglove.ext import evolution as ev
from engine import sched, trace_replay
from engine.yieldify import yieldify, VLock, VPStopIteration
from engine.chx import Assume, Violation, reach, untraced, concretize
from engine import chx

PROPERTY = 'C16'
LEVEL = 'model_checking'
REACH_POINTS = ['schedule.completed', 'schedule.preempted']

NAMES = {'create_trial', '_complete_trial', 'next', 'done', 'skip', '_add_measurement', 'end_loop', '_feedback', '_feedback_fn',
         'dna_fn', 'next_dna', 'propose', 'feedback', '_propose', 'worker_body', 'make_backend', 'factory', '_try_complete'}

ACTIONS = ['done', 'skip', 'early_stop', 'end_loop']


# ---- the worker: ordinary code; it is yieldified for Engine B and run as is on real threads ----

def make_backend(factory, name, group, spec, algo, n):
  return factory(name, group, spec, algo, ['reward'], None, n)


def worker_body(factory, name, group, spec, algo, n, actions, rewards, log):
  backend = make_backend(factory, name, group, spec, algo, n)
  log.append(('study', group, backend._study))          # pylint: disable=protected-access
  for j in range(len(actions)):
    try:
      fb = backend.next()
    except StopIteration:
      return
    log.append(('trial', group, fb.id))
    act = actions[j]
    log.append(('finishing', group, fb.id))      # from here on the trial may already count as finished
    try:
      if act == 'skip':
        fb.skip()
      elif act == 'early_stop':
        fb._add_measurement(float(rewards[j]), {}, 1, None, 0.0)      # pylint: disable=protected-access
        fb.skip()
      else:
        fb._add_measurement(float(rewards[j]), {}, 1, None, 0.0)      # pylint: disable=protected-access
        fb.done()
        if act == 'end_loop':
          fb.end_loop()
      log.append(('reported', group, fb.id))       # done()/skip() returned normally: the outcome must not be lost
    except lb.RaceConditionError:
      pass          # documented signal: a co-worker of the same group has already finished this trial


# ---- shadow classes holding the transformed copies (the originals stay untouched for replay) ----

_BUILT = {}


def build():
  if _BUILT:
    return _BUILT
  tid = sched.current_tid
  results = {}

  class YResult(lb._InMemoryResult):      # pylint: disable=protected-access
    def __init__(self, *a, **k):
      super().__init__(*a, **k)
      self._lock = VLock()
  YResult.create_trial = yieldify(lb._InMemoryResult.create_trial, NAMES, tid)          # pylint: disable=protected-access
  YResult._complete_trial = yieldify(lb._InMemoryResult._complete_trial, NAMES, tid)    # pylint: disable=protected-access
  if hasattr(lb._InMemoryResult, '_try_complete'):                                     # pylint: disable=protected-access
    YResult._try_complete = yieldify(lb._InMemoryResult._try_complete, NAMES, tid)      # pylint: disable=protected-access

  class YFeedback(lb._InMemoryFeedback):      # pylint: disable=protected-access
    pass
  for m in ('done', 'skip', '_add_measurement', 'end_loop'):
    setattr(YFeedback, m, yieldify(getattr(lb._InMemoryFeedback, m), NAMES, tid))        # pylint: disable=protected-access

  class YBackend(lb._InMemoryBackend):      # pylint: disable=protected-access
    def _create_feedback(self, study, trial):
      # (hand-written twin of _InMemoryBackend._create_feedback: instantiates the transformed feedback class)
      return YFeedback(study, trial, self._feedback, self._should_stop_early, self._metrics_to_optimize)
  YBackend.__init__ = yieldify(lb._InMemoryBackend.__init__, NAMES, tid, cls=lb._InMemoryBackend,      # pylint: disable=protected-access
                               extra_globals=dict(_InMemoryResult=YResult, _in_memory_results=results, _in_memory_results_lock=VLock()))
  YBackend.next = yieldify(lb._InMemoryBackend.next, NAMES, tid)              # pylint: disable=protected-access
  YBackend._feedback = yieldify(lb._InMemoryBackend._feedback, NAMES, tid)    # pylint: disable=protected-access

  class YSweeping(geno.Sweeping):
    pass
  YSweeping.propose = yieldify(dg.DNAGenerator.propose, NAMES, tid)
  YSweeping.feedback = yieldify(dg.DNAGenerator.feedback, NAMES, tid)

  class YEvolution(ev_base.Evolution):
    def _setup(self):
      super()._setup()
      self._lock = VLock()
  YEvolution.propose = yieldify(dg.DNAGenerator.propose, NAMES, tid)
  YEvolution.feedback = yieldify(dg.DNAGenerator.feedback, NAMES, tid)
  YEvolution._propose = yieldify(ev_base.Evolution._propose, NAMES - {'propose'}, tid)      # pylint: disable=protected-access
  YEvolution._feedback = yieldify(ev_base.Evolution._feedback, NAMES - {'feedback'}, tid)   # pylint: disable=protected-access

  def yfactory(*a):
    obj = YBackend.__new__(YBackend)
    yield from YBackend.__init__(obj, *a)
    return obj
  yfactory.__vp__ = True
  from engine import yieldify as _y
  _y._VP_CODES.add(yfactory.__code__)

  yworker = yieldify(worker_body, NAMES, tid)
  ymake = yieldify(make_backend, NAMES, tid)
  yworker.__globals__['make_backend'] = ymake
  _BUILT.update(YResult=YResult, YFeedback=YFeedback, YBackend=YBackend, YSweeping=YSweeping, YEvolution=YEvolution,
                yworker=yworker, yfactory=yfactory, results=results,
                functions=[f.__vp_source__[2] for f in (YResult.create_trial, YResult._complete_trial, YFeedback.done, YFeedback.skip,
                                                        YFeedback._add_measurement, YFeedback.end_loop, YBackend.__init__, YBackend.next,
                                                        YBackend._feedback, YSweeping.propose, YSweeping.feedback, YEvolution._propose,
                                                        YEvolution._feedback)])
  return _BUILT


FILES = lambda: {lb.__file__, dg.__file__, ev_base.__file__, os.path.abspath(__file__)}


def _spec():
  return pg.dna_spec(pg.oneof(list(range(8))))


def _mk_algo(kind, transformed):
  b = build()
  if kind == 'sweeping':
    return (b['YSweeping'] if transformed else geno.Sweeping)()
  if kind == 'evolution':
    a = ev.regularized_evolution(population_size=2, tournament_size=2, seed=1)
    return _as_yevolution(a) if transformed else a
  raise AssertionError(kind)


def _as_yevolution(a):
  """A transformed Evolution with the same configuration (reproduction pipeline etc.)."""
  b = build()
  kwargs = {k: a.sym_getattr(k) for k in a.sym_keys()}
  return b['YEvolution'](**{k: (v.clone(deep=True) if isinstance(v, pg.Symbolic) else v) for k, v in kwargs.items()})


def oracle(log, studies, algo, n, nworkers, configs):
  """Quiescence invariant of C16. Returns (signature, detail) or None."""
  study_objs = []
  for s in studies:
    if not any(s is t for t in study_objs):
      study_objs.append(s)
  if len(study_objs) != 1:
    return ('workers_got_private_studies', f'{len(study_objs)} distinct study objects for one name')
  study = study_objs[0]
  trials = study.trials
  ids = [t.id for t in trials]
  if sorted(ids) != list(range(1, len(ids) + 1)):
    return ('trial_ids_not_1_to_n_once', f'ids={ids}')
  if n is not None and len(ids) > n:
    return ('more_trials_than_requested', f'{len(ids)} trials for num_examples={n}: ids={ids}')
  by_trial = {}
  for kind, group, tid in [e for e in log if e[0] == 'trial']:
    by_trial.setdefault(tid, set()).add(group)
  for tid, groups in by_trial.items():
    if len(groups) > 1:
      return ('trial_delivered_to_two_groups', f'trial {tid} -> groups {sorted(groups)}')
  # workers of one group share the pending trial: a second trial may be handed to the group only after the
  # first one was finished (sound under-approximation: 'pending' = its worker has not yet started to finish it)
  open_by_group = {}
  for kind, group, tid in [e for e in log if e[0] in ('trial', 'finishing')]:
    cur = open_by_group.get(group)
    if kind == 'trial':
      if cur is not None and cur != tid:
        return ('same_group_workers_got_different_pending_trials', f'group {group}: trial {tid} handed out while {cur} is pending')
      open_by_group[group] = tid
    elif cur == tid:
      open_by_group[group] = None
  # no outcome is lost: a trial whose worker reported (done / skip returned normally) is completed at quiescence
  by_id = {t.id: t for t in trials}
  for kind, group, tid in [e for e in log if e[0] == 'reported']:
    if tid in by_id and by_id[tid].status != 'COMPLETED':
      return ('reported_trial_not_completed', f'trial {tid} (group {group}) was reported by its worker but is {by_id[tid].status}')
  pending = sum(1 for t in trials if t.status == 'PENDING')
  completed = sum(1 for t in trials if t.status == 'COMPLETED')
  c = study._num_trials_by_status        # pylint: disable=protected-access
  if c['PENDING'] != pending or c['COMPLETED'] != completed or pending + completed != len(trials):
    return ('status_counters_inconsistent', f'counters={c} actual pending={pending} completed={completed} of {len(trials)}')
  fed = [t for t in trials if t.status == 'COMPLETED' and not t.infeasible]
  if algo.num_feedbacks != len(fed):
    return ('feedback_count_differs_from_completed_trials', f'algorithm saw {algo.num_feedbacks} feedbacks for {len(fed)} completed '
            f'feasible trials')
  if algo.num_proposals != len(trials):
    return ('proposal_count_differs_from_trials', f'{algo.num_proposals} proposals for {len(trials)} trials')
  infeasible = sum(1 for t in trials if t.infeasible)
  if study._num_infeasible != infeasible:      # pylint: disable=protected-access
    return ('infeasible_counter_inconsistent', f'{study._num_infeasible} vs {infeasible}')    # pylint: disable=protected-access
  best = study.best_trial
  if fed:
    top = max(t.final_measurement.reward for t in fed)
    if best is None or best.infeasible or best.final_measurement.reward != top:
      return ('best_trial_not_maximal', f'best={None if best is None else (best.id, best.final_measurement.reward)} max reward={top}')
  elif best is not None and best.infeasible:
    return ('infeasible_trial_is_best', str(best.id))
  if isinstance(algo, ev_base.Evolution):
    seqs = sorted(ev_base.get_feedback_sequence_number(d) for d in algo.population)
    if len(set(seqs)) != len(seqs):
      return ('duplicate_feedback_sequence_numbers', str(seqs))
  return None


def _configs(params, acts, rewards, groups):
  nworkers = params['workers']
  per = params['per_worker']
  cfgs = []
  for wi in range(nworkers):
    a = [ACTIONS[acts[wi * per + j]] for j in range(per)]
    r = [rewards[wi * per + j] for j in range(per)]
    cfgs.append(dict(group=str(groups[wi]), actions=a, rewards=r))
  return cfgs


def run_transformed(params, cfgs, runlens, first):
  b = build()
  b['results'].clear()
  algo = _mk_algo(params['algo'], True)
  spec = _spec()
  n = params.get('num_examples')
  log = []

  def make_threads():
    return [b['yworker'](b['yfactory'], 'study', c['group'], spec, algo, n, c['actions'], c['rewards'], log) for c in cfgs]
  trace, errors, exact = sched.run(make_threads, runlens, first=first)
  return trace, errors, exact, log, algo


def run_real_threads(params, cfgs, trace):
  """Replay of a schedule on real threads over the untransformed classes."""
  lb._in_memory_results.pop('verif-study', None)        # pylint: disable=protected-access
  algo = _mk_algo(params['algo'], False)
  spec = _spec()
  n = params.get('num_examples')
  log = []
  bodies = [
      (lambda c=c: worker_body(lb._InMemoryBackend, 'verif-study', c['group'], spec, algo, n, c['actions'], c['rewards'], log))   # pylint: disable=protected-access
      for c in cfgs]
  rp = trace_replay.Replayer(trace, FILES())
  followed = rp.run(bodies)
  lb._in_memory_results.pop('verif-study', None)        # pylint: disable=protected-access
  return followed, rp, log, algo


def h_sched(params, n0, n1, n2, first, a0, a1, a2, a3, r0, r1, r2, r3, g0, g1, g2):
  nworkers, per = params['workers'], params['per_worker']
  k = params['preemptions']
  maxlen = params['maxlen']
  lens = [concretize(x, range(0, maxlen + 1)) for x in (n0, n1, n2)[:k]]
  first = 0 if params.get('symmetric') else concretize(first, range(nworkers))
  nact = nworkers * per
  acts = [concretize(x, range(len(params['actions']))) for x in (a0, a1, a2, a3)[:nact]]
  acts = [ACTIONS.index(params['actions'][i]) for i in acts]
  # rewards: distinct fixed values (both orders arise from `first`) unless the shard asks for symbolic ones (ties, all orders)
  rewards = [concretize(x, (0, 1, 2)) for x in (r0, r1, r2, r3)[:nact]] if params.get('sym_rewards') else [1, 2, 0, 1][:nact]
  if params['groups'] == 'distinct':
    groups = list(range(nworkers))
  elif params['groups'] == 'same':
    groups = [0] * nworkers
  else:
    groups = [concretize(x, (0, 1)) for x in (g0, g1, g2)[:nworkers]]
  cfgs = _configs(params, acts, rewards, groups)
  with untraced():
    try:
      trace, errors, exact, log, algo = run_transformed(params, cfgs, lens, first)
    except sched.Deadlock as e:
      return Violation('deadlock', str(e))
    if not exact:
      raise Assume()           # canonical form of the schedule (segments are exact)
    reach('schedule.completed')
    if any(lens):
      reach('schedule.preempted')
    bad = None
    for t, e in errors.items():
      if not isinstance(e, (StopIteration, VPStopIteration)):
        bad = (f'worker_raised:{type(e).__name__}', f'worker {t}: {e!r}')
    if bad is None:
      studies = [e[2] for e in log if e[0] == 'study']
      bad = oracle(log, studies, algo, params.get('num_examples'), nworkers, cfgs)
    if bad is None:
      return None
    sig, detail = bad
    same_group = len({c['group'] for c in cfgs}) < len(cfgs)
    sig = f'{sig}:{"same_group" if same_group else "distinct_groups"}:{params["algo"]}'
    # replay the schedule on real threads over the untransformed code; only a reproducing violation counts
    followed, rp, rlog, ralgo = run_real_threads(params, cfgs, trace)
    rstudies = [e[2] for e in rlog if e[0] == 'study']
    rbad = None
    for t, e in rp.errors.items():
      if not isinstance(e, StopIteration):
        rbad = (f'worker_raised:{type(e).__name__}', f'worker {t}: {e!r}')
    if rbad is None and rstudies:
      rbad = oracle(rlog, rstudies, ralgo, params.get('num_examples'), nworkers, cfgs)
    if rbad is None:
      # the transformed run violates, the real-thread run does not: encoding error, not a finding
      return Violation('ENGINE-B-REPLAY-MISMATCH:' + sig, f'schedule followed={followed} ({rp.diverged}); {detail}')
    compact = []
    for t, f, ln in trace:
      if not compact or compact[-1][0] != t:
        compact.append([t, os.path.basename(f), ln, ln])
      else:
        compact[-1][3] = ln
    return Violation(sig, f'{detail}; cfg={cfgs}; schedule (thread, file, first..last line of each run): {compact[:12]}; '
                     f'real-thread replay reproduced: {rbad[0]} (schedule followed={followed})')


def _sequential_length(p):
  cfgs = [dict(group=str(w), actions=['done'] * p['per_worker'], rewards=[1] * p['per_worker']) for w in range(p['workers'])]
  trace, _, _, _, _ = run_transformed(p, cfgs, [], 0)
  return sum(1 for t, _, _ in trace if t == 0)


_ARGS = [('n0', 'int'), ('n1', 'int'), ('n2', 'int'), ('first', 'int'), ('a0', 'int'), ('a1', 'int'), ('a2', 'int'), ('a3', 'int'),
         ('r0', 'int'), ('r1', 'int'), ('r2', 'int'), ('r3', 'int'), ('g0', 'int'), ('g1', 'int'), ('g2', 'int')]


def h_sched_w(params, n0, n1, n2, first, a0, a1, a2, a3, r0, r1, r2, r3, g0, g1, g2):
  lo, hi = params['window']
  if not lo <= n0 < hi:
    raise Assume()
  return h_sched(params, n0, n1, n2, first, a0, a1, a2, a3, r0, r1, r2, r3, g0, g1, g2)


def shards(tier, seed):
  quick = tier == 'quick'
  out = []
  step = 10

  def add(tag, **p):
    maxlen = 70 * p['per_worker']
    # windows beyond the number of statements a worker executes are redundant (non-canonical schedules)
    length = _sequential_length(dict(p))
    st = step if p['preemptions'] == 1 else 4
    p = dict(p)
    budget, expect = p.pop('budget', 60), p.pop('expect', 30)
    for lo in range(0, min(maxlen, length) + 1, st):
      params = dict(maxlen=min(maxlen, length), window=(lo, lo + st), **p)
      out.append(dict(name=f'{tag}:n0={lo}-{lo + st - 1}', fn='h_sched_w', params=params, args=_ARGS,
                      allow_vacuous=lo >= length - 25,      # tail windows can be empty (shorter action mixes)
                      budget_s=budget if quick else 900, expect_s=expect if quick else 900, per_path_s=60))
  # 2 workers in distinct groups, one trial each, one preemption; all action mixes
  add('2w1t:K1:distinct:sweeping', workers=2, per_worker=1, preemptions=1, actions=ACTIONS, groups='distinct', algo='sweeping',
      num_examples=None, budget=180, expect=90)
  # the budget boundary: 2 workers race for the last trial
  add('2w1t:K1:budget1:sweeping', workers=2, per_worker=1, preemptions=1, actions=['done'], groups='distinct', algo='sweeping',
      num_examples=1)
  add('2w2t:K1:budget3:sweeping', workers=2, per_worker=2, preemptions=1, actions=['done', 'skip'] if not quick else ['done'],
      groups='distinct', algo='sweeping', num_examples=3)
  # same-group workers share the pending trial
  add('2w1t:K1:same_group:sweeping', workers=2, per_worker=1, preemptions=1, actions=['done', 'skip', 'early_stop'], groups='same',
      algo='sweeping', num_examples=None)
  add('2w1t:K1:rewards:sweeping', workers=2, per_worker=1, preemptions=1, actions=['done'], groups='distinct', algo='sweeping',
      num_examples=None, sym_rewards=True)
  add('2w1t:K2:same_group:sweeping', workers=2, per_worker=1, preemptions=2, actions=['done'], groups='same', algo='sweeping',
      num_examples=None, symmetric=True, budget=150, expect=70)
  add('2w1t:K1:distinct:evolution', workers=2, per_worker=1, preemptions=1, actions=['done'], groups='distinct', algo='evolution',
      num_examples=None)
  if not quick:
    add('2w1t:K1:mixed_groups:sweeping', workers=2, per_worker=1, preemptions=1, actions=['done', 'skip'], groups='symbolic',
        algo='sweeping', num_examples=None, sym_rewards=True)
    add('2w1t:K2:distinct:sweeping', workers=2, per_worker=1, preemptions=2, actions=['done', 'skip'], groups='distinct',
        algo='sweeping', num_examples=None)
    add('2w2t:K2:budget3:sweeping', workers=2, per_worker=2, preemptions=2, actions=['done'], groups='distinct', algo='sweeping',
        num_examples=3)
    add('3w1t:K2:distinct:sweeping', workers=3, per_worker=1, preemptions=2, actions=['done'], groups='distinct', algo='sweeping',
        num_examples=2)
    add('2w2t:K2:distinct:evolution', workers=2, per_worker=2, preemptions=2, actions=['done'], groups='distinct', algo='evolution',
        num_examples=None)
  return out


META = dict(
    rule='Shard = (worker/trial configuration, window of the first run length); symbolic: run lengths of the preempted '
         'segments (statement granularity), which thread runs first, per-trial action (done/skip/early-stop/end_loop), '
         'rewards (symbolic in the rewards / mixed_groups families, distinct constants elsewhere), group assignment '
         '(mixed_groups family).',
    bounds=['2 workers x 1-2 trials with K = 1 preemption (quick); K = 2 and 3 workers in thorough', 'run lengths 0..70 statements '
            '(a worker executes ~60 statements per trial)', 'statement granularity inside the transformed functions; calls to '
            'untransformed code are atomic', 'num_examples in {None, 1, 3}; algorithms: Sweeping, regularized evolution'],
    stubs=['threading.Lock of the study / of Evolution replaced by a cooperative VLock (mutual exclusion contract)',
           'transformed copies live on shadow subclasses; _create_feedback is a hand-written twin that instantiates the '
           'transformed feedback class', 'time.time / datetime.now are called natively (bookkeeping only)'],
    outside_claim=['bytecode-granularity interleavings', 'more than 3 threads, more than 2 preemptions', 'real OS scheduling',
                   'backends other than in-memory'],
    assumptions=['x += 1 and other single statements are atomic (the property quantifies at statement granularity)'],
)
