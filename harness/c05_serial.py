"""C05 — serialization and persistence round trips.

JSON half: value skeletons with symbolic int leaves (object form: nothing realizes them;
string form goes through json.dumps, so leaves are bounded there); strings / floats / flags
are chosen by symbolic selectors from listed sets. Persistence half: symbolic histories of
save / overwrite / append / load over a set of tricky paths on the in-memory and the
standard file system, against a last-write-wins model.
"""
import copy
import math
import os
import pickle
import shutil
import tempfile

import pyglove as pg
from pyglove.core import typing as pgt
from pyglove.core import geno
from engine.chx import Assume, Violation, reach, untraced, concretize
from harness import treeops as T

PROPERTY = 'C05'
LEVEL = 'model_checking'
REACH_POINTS = ['json.object_form', 'json.string_form', 'spec', 'fs.history', 'seq', 'rawseq', 'pickle']


class Pt(pg.Object):
  x: int = 0
  y: pgt.Int(default=5) = 5
  tag: pgt.Str().noneable() = None
  kids: pgt.List(pgt.Any()) = []
  meta: pgt.Dict() = pg.Dict()


class Req(pg.Object):
  """Has a required field: a partial instance really is partial."""
  r: int
  s: int = 1


class Holder(pg.Object):
  t: pgt.Any() = None
  u: pgt.Any() = None


def plain_fn(a, b=1):
  return a + b


STRS = ['', 'a', 'x.y', '\n\t\x00', '"q\\', 'é😀', ' ', 'n_:1', '__tuple__', '_type']
FLOATS = [0.0, -0.0, 1.5, float('nan'), float('inf'), float('-inf'), 1e308, 5e-324]


def _pick(seq, i):
  for idx, item in enumerate(seq):
    if i == idx:
      return item
  raise Assume()


def conc(z, lo=-2, hi=2):
  """Concrete int equal to symbolic z (branching; values that cross a C boundary must be concrete)."""
  for c in range(lo, hi + 1):
    if z == c:
      return c
  raise Assume()


def build(shape, v, si, fi):
  s, f = _pick(STRS, si), _pick(FLOATS, fi)
  if shape == 'dict_list':
    return pg.Dict(a=v[0], b=[v[1], {'c': v[2]}, []], s=s, f=f, n=None, t=True)
  if shape == 'int_keys':
    return pg.Dict({1: v[0], 'x': {2: v[1], -1: s}, -3: [v[2]], 0: f})
  if shape == 'str_keys':
    return pg.Dict({s or 'k': v[0], 'inner': {'q': v[1], s + 'z': v[2]}})
  if shape == 'object':
    return Pt(x=v[0], y=v[1], tag=s, kids=[Pt(x=v[2]), {'k': v[3]}, f], meta={'m': [v[0]]})
  if shape == 'object_defaults':
    return Pt(x=v[0])
  if shape == 'partial':
    return Pt.partial(kids=[Pt.partial(), Req.partial(s=v[0])], meta={'m': Req.partial()})
  if shape == 'partial_nested':
    # partial objects below every kind of container, incl. (nested) tuples
    return Holder.partial(t=(v[0], Req.partial(s=v[1]), (Req.partial(), [Req.partial(s=v[2])])),
                          u=pg.Dict(l=[Req.partial()], d={'k': Req.partial(s=v[3])}, tt=((Req.partial(),),)))
  if shape == 'tuples':
    return Holder(t=(v[0], (v[1],), [v[2]], {'d': v[3]}), u=pg.Dict(one=(s,), two=(f, None)))
  if shape == 'tuples_empty':
    return Holder(t=(v[0], ()), u=pg.Dict(e=()))
  if shape == 'typed_list':
    return pg.List([v[0], v[1]], value_spec=pgt.List(pgt.Int()))
  if shape == 'classes_fns':
    return pg.Dict(cls=Pt, fn=plain_fn, ann=pgt.Int, lst=[Holder, plain_fn])
  if shape == 'nested_deep':
    return pg.List([pg.Dict(a=pg.List([pg.Dict(b=pg.List([v[0], s]))])), Holder(t=Holder(t=Holder(u=f)))])
  if shape == 'dna':
    spec = pg.dna_spec(pg.Dict(a=pg.oneof([1, 2, pg.oneof([3, 4])]), b=pg.floatv(0.0, 1.0), c=pg.manyof(2, [1, 2, 3])))
    d = pg.DNA([(2, 1), 0.5, [0, 2]], spec=spec)
    d.set_metadata('reward', f, cloneable=True)
    return pg.Dict(dna=d, plain=pg.DNA([v[0] if 0 <= v[0] <= 2 else 0, 0.25]))
  if shape == 'dnaspec':
    return pg.Dict(spec=pg.dna_spec(pg.Dict(a=pg.oneof([1, pg.Dict(z=pg.oneof([5, 6]))]), b=pg.floatv(0.0, 1.0),
                                            c=pg.manyof(2, [1, 2, 3], distinct=True, sorted=True))))
  if shape == 'hyper':
    return pg.Dict(a=pg.oneof([v[0], s, Pt(x=v[1])]), b=pg.floatv(-1.0, 1.0), c=pg.manyof(2, [1, 2, 3]))
  raise AssertionError(shape)


SHAPES = ['dict_list', 'int_keys', 'str_keys', 'object', 'object_defaults', 'partial', 'partial_nested', 'tuples', 'tuples_empty', 'typed_list', 'classes_fns',
          'nested_deep', 'dna', 'dnaspec', 'hyper']


def same(a, b):
  """pg.eq, with nan equal to nan (kind identity) and the sign of zero respected."""
  if isinstance(a, float) and isinstance(b, float):
    if math.isnan(a) or math.isnan(b):
      return math.isnan(a) and math.isnan(b)
    return a == b and math.copysign(1, a) == math.copysign(1, b)
  if isinstance(a, pg.Symbolic) and isinstance(b, pg.Symbolic):
    if type(a) is not type(b):
      return False
    ka, kb = list(a.sym_keys()), list(b.sym_keys())
    if ka != kb:
      return False
    return all(same(a.sym_getattr(k), b.sym_getattr(k)) for k in ka)
  # (a plain list/dict nested in a tuple comes back as pg.List/pg.Dict: the documented "plain containers
  # become symbolic ones"; list-ness / dict-ness and contents must agree)
  if isinstance(a, (list, tuple)) and isinstance(b, (list, tuple)):
    return isinstance(a, tuple) == isinstance(b, tuple) and len(a) == len(b) and all(same(x, y) for x, y in zip(a, b))
  if isinstance(a, dict) and isinstance(b, dict):
    return list(a.keys()) == list(b.keys()) and all(same(a[k], b[k]) for k in a)
  if type(a) is not type(b) and not (isinstance(a, (int, float)) and isinstance(b, (int, float))):
    return False
  return pg.eq(a, b)


def _check_rt(x, y, tag, has_nan):
  if type(y) is not type(x):
    return Violation(f'{tag}:type_differs', f'{type(x).__name__} -> {type(y).__name__}')
  if not same(x, y):
    return Violation(f'{tag}:value_differs', f'{x!r} -> {y!r}')
  if not has_nan:
    if not pg.eq(x, y):
      return Violation(f'{tag}:not_pg_eq', '')
    try:
      hx = pg.hash(x)
    except TypeError:
      hx = None
    if hx is not None and hx != pg.hash(y):
      return Violation(f'{tag}:hash_differs', '')
  if isinstance(y, pg.Symbolic):
    r = T.inv(y)
    if r is not None:
      return Violation(f'{tag}:loaded_tree:{r[0]}', r[1])
    for a, b in zip(T.nodes_of(x), T.nodes_of(y)):
      if a.allow_partial != b.allow_partial and isinstance(a, pg.Object):
        return Violation(f'{tag}:partial_flag_differs', str(a.sym_path))
      if (getattr(a, 'value_spec', None) is not None and not isinstance(a, pg.Object)
          and not isinstance(a.sym_parent, pg.DNA)):
        if getattr(b, 'value_spec', None) is None and a.sym_parent is not None:
          return Violation(f'{tag}:value_spec_lost', str(a.sym_path))
  return None


def h_json(params, v0, v1, v2, v3, si, fi, hide, form):
  shape = params['shape']
  v = (v0, v1, v2, v3)
  if form == 1:
    v = tuple(conc(z) for z in v)            # json.dumps is a C boundary
  elif form != 0:
    raise Assume()
  x = build(shape, v, si, fi)
  f = _pick(FLOATS, fi)
  has_nan = math.isnan(f)
  kwargs = dict(hide_default_values=bool(hide))
  tag = f'json:{shape}' if form == 0 else f'json_str:{shape}'
  skey = f':s{si}' if shape == 'str_keys' else ''       # the string selector matters for key encodings only
  try:
    if form == 0:
      reach('json.object_form')
      y = pg.from_json(pg.to_json(x, **kwargs), allow_partial=shape.startswith('partial'))
    else:
      reach('json.string_form')
      y = pg.from_json_str(pg.to_json_str(x, **kwargs), allow_partial=shape.startswith('partial'))
  except Exception as e:  # pylint: disable=broad-except
    return Violation(f'{tag}:round_trip_raises:{type(e).__name__}{skey}', f'{x!r}: {e!r}'[:400])
  viol = _check_rt(x, y, tag, has_nan)
  if viol is not None:
    viol.sig += skey
    return viol
  # typed behaviour survives: one accepted and one rejected write behave the same on both
  if shape in ('object', 'object_defaults'):
    for obj in (x, y):
      try:
        obj.rebind(x='bad')
        return Violation(f'{tag}:schema_not_enforced_after_load', '')
      except (TypeError, ValueError):
        pass
      obj.rebind(x=7)
  return None


# ---- value specs / schemas -----------------------------------------------------------

SPEC_KINDS = ['int', 'int_default', 'float', 'bool', 'str', 'str_regex', 'enum', 'enum_default', 'list', 'list_sized', 'tuple_fixed',
              'tuple_var', 'dict_fields', 'dict_dyn', 'object', 'union', 'any', 'any_annot', 'noneable', 'frozen', 'callable',
              'type', 'schema']


def build_spec(kind, a, b, d):
  if kind == 'int':
    return pgt.Int(min_value=a, max_value=b)
  if kind == 'int_default':
    return pgt.Int(default=d, min_value=a, max_value=b)
  if kind == 'float':
    return pgt.Float(min_value=a, max_value=b)
  if kind == 'bool':
    return pgt.Bool(default=(d > 0))
  if kind == 'str':
    return pgt.Str()
  if kind == 'str_regex':
    return pgt.Str(regex='a.*')
  if kind == 'enum':
    return pgt.Enum(pgt.MISSING_VALUE, ['a', 1, None])
  if kind == 'enum_default':
    return pgt.Enum('a', ['a', 'b'])
  if kind == 'list':
    return pgt.List(pgt.Int(min_value=a))
  if kind == 'list_sized':
    return pgt.List(pgt.Str(), min_size=a, max_size=b)
  if kind == 'tuple_fixed':
    return pgt.Tuple([pgt.Int(), pgt.Str()])
  if kind == 'tuple_var':
    return pgt.Tuple(pgt.Int(), min_size=1, max_size=3)
  if kind == 'dict_fields':
    return pgt.Dict([('k', pgt.Int(default=d)), ('r', pgt.Str())])
  if kind == 'dict_dyn':
    return pgt.Dict([(pgt.StrKey('x.*'), pgt.Int())])
  if kind == 'object':
    return pgt.Object(Pt)
  if kind == 'union':
    return pgt.Union([pgt.Int(min_value=a), pgt.Str(), pgt.Object(Pt)])
  if kind == 'any':
    return pgt.Any()
  if kind == 'any_annot':
    return pgt.Any(annotation=tuple[int, str, float, bool])
  if kind == 'noneable':
    return pgt.Int(max_value=b).noneable()
  if kind == 'frozen':
    return pgt.Int().freeze(d)
  if kind == 'callable':
    return pgt.Callable([pgt.Int()], returns=pgt.Str())
  if kind == 'type':
    return pgt.Type(Pt)
  if kind == 'schema':
    return Pt.__schema__
  raise AssertionError(kind)


def h_spec(params, a, b, d, form):
  kind = params['kind']
  if form == 1:
    a = None if a is None else conc(a, -3, 3)
    b = None if b is None else conc(b, -3, 3)
    d = conc(d, -3, 3)
  elif form != 0:
    raise Assume()
  try:
    s = build_spec(kind, a, b, d)
  except (ValueError, TypeError):
    raise Assume()
  reach('spec')
  try:
    y = pg.from_json(pg.to_json(s)) if form == 0 else pg.from_json_str(pg.to_json_str(s))
  except Exception as e:  # pylint: disable=broad-except
    return Violation(f'spec:{kind}:load_raises:{type(e).__name__}', f'{s!r}: {e!r}')
  if type(y) is not type(s):
    return Violation(f'spec:{kind}:type_differs', f'{type(y).__name__}')
  if not (y == s):
    return Violation(f'spec:{kind}:not_equal', f'{s!r} -> {y!r}')
  return None


# ---- persistence ---------------------------------------------------------------------------

MEM_PATHS = ['/mem/m.json', '/mem/e/m', '/mem/dir/f.json', '/mem/me.json', '/mem/mem/m', '/mem/e', '/mem/dir/mem/f.json', '/mem/dirf.json']


def _content(n, v):
  items = []
  for k in range(4):
    if k < n:
      items.append(v)
  return pg.Dict(k=items, tail='end')


def _fs_body(fsk, paths, root, steps, load_order):
  model = {}
  reach('fs.history')
  for step, (p, n, v) in enumerate(steps):
    path = paths[p]
    val = _content(n, v)
    # a path cannot be both a file and a directory
    if any(q != path and (q.startswith(path + '/') or path.startswith(q + '/')) for q in model):
      raise Assume()
    try:
      pg.save(val, path)
    except Exception as e:  # pylint: disable=broad-except
      return Violation(f'fs:{fsk}:save_raises:{type(e).__name__}', f'step {step} path {path.replace(root, "<root>/")}')
    model[path] = pg.to_json(val)
    for q, want in (list(model.items()) if load_order else list(reversed(list(model.items())))):
      try:
        got = pg.load(q)
      except Exception as e:  # pylint: disable=broad-except
        return Violation(f'fs:{fsk}:load_raises:{type(e).__name__}', f'path {q.replace(root, "<root>/")} after step {step}: {e!r}'[:300])
      if pg.to_json(got) != want:
        return Violation(f'fs:{fsk}:load_returns_other_value',
                         f'path {q.replace(root, "<root>/")}: saved {want!r} loaded {pg.to_json(got)!r}')
  return None


def h_fs(params, p1, n1, v1, p2, n2, v2, p3, n3, v3, load_order):
  """Three saves (possibly to the same path: overwrite with shorter/longer content), then load every path."""
  fsk = params['fs']
  tmp = None
  if fsk == 'mem':
    paths = MEM_PATHS
    root = '/mem/'
  else:
    tmp = tempfile.mkdtemp(prefix='verif_c05_')
    paths = [os.path.join(tmp, p) for p in ['m.json', 'e/m', 'dir/f.json', 'me.json', 'e', 'dir/mem/f.json', 'dirf.json']]
    root = tmp
  try:
    nsteps = params.get('steps', 3)
    if params.get('p1') is not None and p1 != params['p1']:
      raise Assume()           # shard-level cut: the first path
    steps = []
    for k, (p, n, v) in enumerate(((p1, n1, v1), (p2, n2, v2), (p3, n3, v3))[:nsteps]):
      # contents: empty / one / three items (overwrites with shorter and longer content); the value tells the saves apart
      steps.append((concretize(p, range(len(paths))), concretize(n, [0, 1, 3]), concretize(v, [0, 1]) if k == 0 else k + 1))
    load_order = bool(load_order)
    with untraced():
      return _fs_body(fsk, paths, root, steps, load_order)
  finally:
    if tmp is not None:
      shutil.rmtree(tmp, ignore_errors=True)
    else:
      for q in MEM_PATHS:
        try:
          pg.io.rm(q)
        except Exception:  # pylint: disable=broad-except
          pass
      for q in ('/mem/e', '/mem/dir/mem', '/mem/dir', '/mem/mem'):
        try:
          pg.io.rmdirs(q)
        except Exception:  # pylint: disable=broad-except
          pass


def h_seq(params, n1, n2, v, reopen):
  """Records appended to a record sequence come back exactly, across close / reopen-for-append."""
  fsk = params['fs']
  tmp = None
  if fsk == 'mem':
    path = '/mem/seq/r.jsonl'
  else:
    tmp = tempfile.mkdtemp(prefix='verif_c05_')
    path = os.path.join(tmp, 'seq', 'r.jsonl')
  try:
    n1, n2, v = conc(n1, 0, 2), conc(n2, 0, 2), conc(v)
    reach('seq')
    want = []
    with pg.open_jsonl(path, 'w') as f:
      for k in range(2):
        if k < n1:
          rec = pg.Dict(i=k, v=v, s='a\nb')
          f.add(rec)
          want.append(pg.to_json(rec))
    with pg.open_jsonl(path, 'a' if reopen else 'w') as f:
      if not reopen:
        want = []
      for k in range(2):
        if k < n2:
          rec = Pt(x=v, kids=[k])
          f.add(rec)
          want.append(pg.to_json(rec))
    with pg.open_jsonl(path, 'r') as f:
      got = [pg.to_json(r) for r in f]
    if got != want:
      return Violation(f'seq:{fsk}:records_differ:{"append" if reopen else "rewrite"}', f'wrote {want!r} read {got!r}'[:400])
    return None
  finally:
    if tmp is not None:
      shutil.rmtree(tmp, ignore_errors=True)
    else:
      try:
        pg.io.rm(path)
      except Exception:  # pylint: disable=broad-except
        pass


RAW_RECORDS = ['', ' ', 'a', 'a b', '{"x": 1}', '\t']


def h_rawseq(params, n, r0, r1, r2, n2, reopen):
  """Raw string records (no serializer) of a record sequence come back exactly, in order, across reopen-for-append;
  line-based files and the in-memory sequence kind (.mem)."""
  fsk, ext = params['fs'], params['ext']
  tmp = None
  if fsk == 'mem':
    path = '/mem/rawseq/r.' + ext
  else:
    tmp = tempfile.mkdtemp(prefix='verif_c05_')
    path = os.path.join(tmp, 'rawseq', 'r.' + ext)
  try:
    n, n2 = conc(n, 0, 3), conc(n2, 0, 1)
    recs = [RAW_RECORDS[conc(r, 0, len(RAW_RECORDS) - 1)] if k < n else None for k, r in enumerate((r0, r1, r2))]
    recs = [r for r in recs if r is not None]
    reopen = bool(reopen)
    reach('rawseq')
    with untraced():
      want = []
      with pg.io.open_sequence(path, 'w') as f:
        for r in recs:
          f.add(r)
          want.append(r)
      if reopen:
        with pg.io.open_sequence(path, 'a') as f:
          for k in range(n2):
            f.add('tail')
            want.append('tail')
      with pg.io.open_sequence(path, 'r') as f:
        got = [r for r in f]       # (list(f) would ask for len(f) first)
        try:
          length = len(f)
        except NotImplementedError:
          length = len(want)       # (line-based sequences document that they have no length)
      if got != want:
        return Violation(f'rawseq:{fsk}:{ext}:records_differ', f'wrote {want!r} read {got!r}')
      if length != len(want):
        return Violation(f'rawseq:{fsk}:{ext}:len_differs', f'{length} vs {len(want)} records')
    return None
  finally:
    if tmp is not None:
      shutil.rmtree(tmp, ignore_errors=True)
    else:
      try:
        pg.io.rm(path)
      except Exception:  # pylint: disable=broad-except
        pass


def h_pickle(params, v0, v1, v2, v3, si, fi, how):
  shape = params['shape']
  v = (v0, v1, v2, v3)
  v = tuple(conc(z) for z in v)
  x = build(shape, v, si, fi)
  reach('pickle')
  if how == 0:
    y = pickle.loads(pickle.dumps(x))
    tag = f'pickle:{shape}'
  elif how == 1:
    y = copy.deepcopy(x)
    tag = f'deepcopy:{shape}'
  else:
    raise Assume()
  return _check_rt(x, y, tag, math.isnan(_pick(FLOATS, fi)))


_JA = [('v0', 'int'), ('v1', 'int'), ('v2', 'int'), ('v3', 'int'), ('si', 'int'), ('fi', 'int'), ('hide', 'bool'), ('form', 'int')]


def shards(tier, seed):
  quick = tier == 'quick'
  b = 40 if quick else 400
  out = []
  for shape in SHAPES:
    out.append(dict(name=f'json:{shape}', fn='h_json', params=dict(shape=shape), args=_JA, budget_s=b, per_path_s=20))
  for kind in SPEC_KINDS:
    out.append(dict(name=f'spec:{kind}', fn='h_spec', params=dict(kind=kind),
                    args=[('a', 'optint'), ('b', 'optint'), ('d', 'int'), ('form', 'int')], budget_s=b // 2, per_path_s=20))
  fa = [('p1', 'int'), ('n1', 'int'), ('v1', 'int'), ('p2', 'int'), ('n2', 'int'), ('v2', 'int'), ('p3', 'int'), ('n3', 'int'),
        ('v3', 'int'), ('load_order', 'bool')]
  for fs in ('mem', 'std'):
    if quick:
      out.append(dict(name=f'fs:{fs}:2saves', fn='h_fs', params=dict(fs=fs, steps=2), args=fa, budget_s=b * 4, expect_s=60, per_path_s=30))
    else:
      for p1 in range(8 if fs == 'mem' else 7):
        out.append(dict(name=f'fs:{fs}:3saves:p{p1}', fn='h_fs', params=dict(fs=fs, steps=3, p1=p1), args=fa, budget_s=b * 2, per_path_s=30))
    out.append(dict(name=f'seq:{fs}', fn='h_seq', params=dict(fs=fs),
                    args=[('n1', 'int'), ('n2', 'int'), ('v', 'int'), ('reopen', 'bool')], budget_s=b, per_path_s=30))
    for ext in ('txt', 'jsonl', 'mem'):
      out.append(dict(name=f'rawseq:{fs}:{ext}', fn='h_rawseq', params=dict(fs=fs, ext=ext),
                      args=[('n', 'int'), ('r0', 'int'), ('r1', 'int'), ('r2', 'int'), ('n2', 'int'), ('reopen', 'bool')],
                      budget_s=b * 3, expect_s=40, per_path_s=30))
  for shape in (['dict_list', 'object', 'tuples', 'int_keys', 'dna'] if quick else SHAPES):
    out.append(dict(name=f'pickle:{shape}', fn='h_pickle', params=dict(shape=shape),
                    args=[('v0', 'int'), ('v1', 'int'), ('v2', 'int'), ('v3', 'int'), ('si', 'int'), ('fi', 'int'), ('how', 'int')],
                    budget_s=b, per_path_s=20))
  return out


META = dict(
    rule='Shard = value skeleton / spec kind / file system; symbolic: int leaves, string and float selectors, '
         'hide_default_values, object vs string form, save history (path selector, content length, value) x3.',
    bounds=['value skeletons: ' + ', '.join(SHAPES), 'spec kinds: ' + ', '.join(SPEC_KINDS),
            'int leaves unbounded in object form, [-2,2] in string form / files / pickle (json.dumps realizes them)',
            'strings from %r' % STRS, 'floats from %r' % [repr(f) for f in FLOATS],
            'file histories: 3 saves over 5-6 paths (incl. /mem/m.json, /mem/e/m, nested dirs) with contents of symbolic '
            'length 0..3, load of every saved path after every step; record sequences: <= 2+2 records, reopen for append'],
    stubs=['StdFileSystem paths live in a per-path temporary directory outside /repo and /verif, removed afterwards'],
    outside_claim=['third-party file systems', 'opaque pickled payload contents', 'values outside the skeleton family'],
    assumptions=['nan is compared by kind (nan == nan), -0.0 by sign'],
)
