"""C14 — evolution operators are closed over valid DNA and never corrupt their inputs.

Skeleton = (operator expression, DNASpec). Symbolic: which valid DNAs form the population
(indices into the enumeration), their fitness values (unbounded ints: every order and tie),
and every RNG outcome (engine.chx.SymRandom injected into every operator of the expression).
The operators themselves run natively; each random draw is a solver decision.
"""
import random

import pyglove as pg
from pyglove.ext import evolution as ev
from pyglove.ext.evolution import base as ev_base
from pyglove.ext.evolution import mutators, recombinators, selectors
from engine.chx import Assume, Violation, reach, untraced, SymRandom
from harness import c12_dnaviews as V

PROPERTY = 'C14'
LEVEL = 'model_checking'
REACH_POINTS = ['op.output', 'selector.members', 'inputs.unchanged', 'seeded.deterministic']


def _spaces():
  return dict(
      named=V._templates()['named'],
      sorted_multi=V._templates()['sorted_multi'],
      multi_nested=V._templates()['multi_nested'],
      perm=pg.Dict(p=pg.manyof(3, [0, 1, 2, 3], distinct=True, sorted=False), q=pg.oneof([0, 1])),
      sorted_nd=pg.Dict(s=pg.manyof(3, [0, 1, 2, 3, 4], distinct=False, sorted=True)),
      floats=pg.Dict(f=pg.floatv(0.0, 1.0), g=pg.floatv(-1.0, 1.0), c=pg.oneof([0, 1, 2])),
      tiny=pg.Dict(x=pg.oneof([1, pg.oneof(['p', 'q'])]), y=pg.oneof([0, 1, 2])),
      # floats that exist under one branch of a choice only (parents may sit on different branches)
      cond_floats=pg.Dict(b=pg.oneof([pg.Dict(rate=pg.floatv(0.5, 1.0)), 'none', pg.Dict(rate2=pg.floatv(0.5, 1.0))]),
                          c=pg.oneof([0, 1])),
  )


_CACHE = {}


def space(name):
  if name not in _CACHE:
    with untraced():
      spec = pg.dna_spec(_spaces()[name])
      if name == 'floats':
        dnas = [pg.DNA([a, b, c], spec=spec) for a in (0.0, 0.5, 1.0) for b in (-1.0, 0.25) for c in (0, 2)]
      elif name == 'cond_floats':
        dnas = [pg.DNA([b, c], spec=spec) for b in ((0, 0.5), (0, 0.6), (0, 1.0), 1, (2, 0.75)) for c in (0, 1)]
      else:
        dnas = list(spec.iter_dna())
      _CACHE[name] = (spec, dnas)
  return _CACHE[name]


def _w(inputs):
  return [1.0 + i for i in range(len(inputs))]


OPS = {
    # mutators
    'mut_uniform': lambda s: mutators.Uniform(seed=s),
    'mut_swap': lambda s: mutators.Swap(seed=s),
    # recombinators
    'rec_uniform': lambda s: recombinators.Uniform(seed=s),
    'rec_sample': lambda s: recombinators.Sample(weights=_w, seed=s),
    'rec_kpoint1': lambda s: recombinators.KPoint(1, seed=s),
    'rec_kpoint2': lambda s: recombinators.KPoint(2, seed=s),
    'rec_segmented': lambda s: recombinators.Segmented(lambda xs: [1]),
    'rec_average': lambda s: recombinators.Average(),
    'rec_wavg': lambda s: recombinators.WeightedAverage(weights=_w),
    'rec_pmx': lambda s: recombinators.PartiallyMapped(seed=s),
    'rec_order': lambda s: recombinators.Order(seed=s),
    'rec_cycle': lambda s: recombinators.Cycle(),
    # selectors
    'sel_random': lambda s: selectors.Random(2, seed=s),
    'sel_random_repl': lambda s: selectors.Random(3, replacement=True, seed=s),
    'sel_sample': lambda s: selectors.Sample(2, weights=_w, seed=s),
    'sel_proportional': lambda s: selectors.Proportional(2, weights=_w),
    # weights spread over two orders of magnitude (rounding over- and under-allocates), as many selected as given
    'sel_proportional_w': lambda s: selectors.Proportional(5, weights=lambda xs: [1.0 + 29.0 * ev.get_fitness(d) for d in xs]),
    'sel_top': lambda s: selectors.Top(2),
    'sel_bottom': lambda s: selectors.Bottom(2),
    'sel_first': lambda s: selectors.First(2),
    'sel_last': lambda s: selectors.Last(2),
    # compositions
    'x_pipeline': lambda s: selectors.Top(2) >> mutators.Uniform(seed=s),
    'x_elitism': lambda s: ev_base.Identity() + (selectors.Top(1) >> mutators.Uniform(seed=s)),
    'x_union': lambda s: selectors.First(2) | selectors.Last(2),
    'x_intersection': lambda s: selectors.First(3) & selectors.Last(3),
    'x_difference': lambda s: ev_base.Identity() - selectors.Top(1),
    'x_inversion': lambda s: ~selectors.Top(1),
    'x_symdiff': lambda s: selectors.First(2) ^ selectors.Last(2),
    'x_repeat': lambda s: mutators.Uniform(seed=s) * 2,
    'x_power': lambda s: mutators.Uniform(seed=s) ** 2,
    'x_slice': lambda s: selectors.Top(3)[1:],
    'x_with_prob': lambda s: mutators.Uniform(seed=s).with_prob(0.5, seed=s),
    'x_skip_concat': lambda s: mutators.Swap(seed=s).with_prob(0.5, seed=s) + (selectors.Last(1) >> mutators.Uniform(seed=s)),
    'x_for_each': lambda s: selectors.First(2).for_each(lambda d: [d, d]).flatten(),
    'x_if_true': lambda s: (selectors.Top(1) >> mutators.Uniform(seed=s)).if_true(lambda xs: len(xs) > 2),
    'x_rec_then_mut': lambda s: selectors.Top(2) >> recombinators.Uniform(seed=s) >> mutators.Uniform(seed=s),
    'x_until_change': lambda s: selectors.First(1) >> mutators.Uniform(seed=s).until_change(max_attempts=2),
    'x_choice': lambda s: ev_base.Choice([(mutators.Uniform(seed=s), 0.5), (mutators.Swap(seed=s), 0.5)], seed=s),
}
SELECTOR_COUNT = {'sel_random': 2, 'sel_random_repl': 3, 'sel_sample': 2, 'sel_proportional': 2, 'sel_proportional_w': 5, 'sel_top': 2, 'sel_bottom': 2,
                  'sel_first': 2, 'sel_last': 2}
PURE_SELECTION = set(SELECTOR_COUNT) | {'x_union', 'x_intersection', 'x_difference', 'x_inversion', 'x_symdiff', 'x_slice'}
TWO_PARENTS = {'rec_kpoint1', 'rec_kpoint2', 'rec_segmented', 'rec_pmx', 'rec_order', 'rec_cycle'}
NEEDS = {'rec_average': 'floats', 'rec_wavg': 'floats', 'rec_pmx': 'perm', 'rec_order': 'perm', 'rec_cycle': 'perm'}


def _inject(op, rng):
  """Every operator of the expression draws from the symbolic RNG."""
  seen = []

  def visit(o):
    if isinstance(o, pg.Object):
      if hasattr(o, '_random'):
        o._random = rng        # pylint: disable=protected-access
        seen.append(type(o).__name__)
      for v in o.sym_values():
        visit(v)
    elif isinstance(o, (list, tuple, pg.List)):
      for v in o:
        visit(v)
  visit(op)
  return seen


def _pick(seq, i):
  for k, item in enumerate(seq):
    if i == k:
      return item
  raise Assume()


def _snapshot(pop):
  return [(id(d), pg.to_json(d), dict(d.metadata), d.spec is not None) for d in pop]


def h_op(params, n0, n1, n2, n3, size, f0, f1, f2, f3, rng, n4=0, f4=0):
  name, sp = params['op'], params['spec']
  spec, dnas = space(sp)
  if 'sizes' in params:      # core shards: size was made concrete by h_op_core (and may be 1)
    if size not in params['sizes']:
      raise Assume()
  else:
    size = _pick([2, 3, 4], size - 2)
  if name in TWO_PARENTS and size != 2:
    raise Assume()          # documented: these recombinators take exactly two parents
  idx = [n0, n1, n2, n3, n4][:size]
  fit = [f0, f1, f2, f3, f4][:size]
  # fitness: symbolic ints -> all relative orders and ties; made concrete by branching on a small range
  fit = [_pick(list(range(0, 3)), f) for f in fit]
  pop = []
  for k, n in enumerate(idx):
    d = _pick(dnas, n)
    with untraced():
      d = d.clone(deep=True)
      d.use_spec(spec)
      ev.set_fitness(d, float(fit[k]))
      ev_base.set_proposal_id(d, k + 1)
      ev_base.set_generation_id(d, 1)
    pop.append(d)
  with untraced():
    op = OPS[name](7)
    _inject(op, rng)
    before = _snapshot(pop)
    pop_ids = [id(d) for d in pop]
    try:
      out = op(pop, global_state=pg.geno.AttributeDict(), step=0)
    except (RuntimeError, NotImplementedError) as e:
      raise Assume()            # documented refusals (e.g. immutable DNA)
    except Exception as e:  # pylint: disable=broad-except
      return Violation(f'{name}:raises:{type(e).__name__}', f'spec={sp} pop={[d.to_numbers() for d in pop]} fit={fit}: {e}'[:400])
    reach('op.output')
    if not isinstance(out, list):
      return Violation(f'{name}:output_not_a_list', repr(type(out)))
    for o in out:
      if not isinstance(o, pg.DNA):
        return Violation(f'{name}:output_not_dna', repr(o))
      viol = V.aligned(o, spec, name)
      if viol is not None:
        viol.detail = f'spec={sp} pop={[d.to_numbers() for d in pop]}: ' + viol.detail
        return viol
    if name in PURE_SELECTION:
      reach('selector.members')
      for o in out:
        if not any(o is d for d in pop):
          return Violation(f'{name}:output_not_a_member_of_input', repr(o))
      if name in SELECTOR_COUNT:
        want = SELECTOR_COUNT[name]
        if name not in ('sel_random_repl', 'sel_sample', 'sel_proportional', 'sel_proportional_w'):
          want = min(want, len(pop))
        if len(out) != want:
          return Violation(f'{name}:output_count', f'{len(out)} vs {want} from {len(pop)}')
      if name == 'sel_top':
        best = sorted(fit, reverse=True)[:len(out)]
        if sorted((ev.get_fitness(o) for o in out), reverse=True) != [float(b) for b in best]:
          return Violation('sel_top:not_the_fittest', f'fit={fit} selected={[ev.get_fitness(o) for o in out]}')
      if name == 'sel_bottom':
        worst = sorted(fit)[:len(out)]
        if sorted(ev.get_fitness(o) for o in out) != [float(b) for b in worst]:
          return Violation('sel_bottom:not_the_least_fit', f'fit={fit} selected={[ev.get_fitness(o) for o in out]}')
    reach('inputs.unchanged')
    if [id(d) for d in pop] != pop_ids or _snapshot(pop) != before:
      return Violation(f'{name}:inputs_modified', f'spec={sp} pop={[d.to_numbers() for d in pop]} before={[b[1] for b in before]}'[:400])
  return None


def h_seeded(params, n0, n1, n2, seed_sel, g1, g2):
  """An operator built with a seed is a deterministic function of seed and inputs (whatever the global RNG does)."""
  name, sp = params['op'], params['spec']
  spec, dnas = space(sp)
  seed = _pick([0, 1, 7], seed_sel)
  ga, gb = _pick([0, 1, 2], g1), _pick([0, 1, 2], g2)
  members = [_pick(dnas, n0), _pick(dnas, n1)] + ([] if name in TWO_PARENTS else [_pick(dnas, n2)])
  with untraced():
    reach('seeded.deterministic')
    outs = []
    for g in (ga, gb):
      random.seed(g)
      pop = []
      for k, m in enumerate(members):
        d = m.clone(deep=True)
        d.use_spec(spec)
        ev.set_fitness(d, float(k))
        pop.append(d)
      op = OPS[name](seed)
      try:
        out = op(pop, global_state=pg.geno.AttributeDict(), step=0)
      except (RuntimeError, NotImplementedError):
        raise Assume()
      outs.append([o.to_numbers() for o in out])
    if outs[0] != outs[1]:
      return Violation(f'{name}:seeded_but_not_deterministic', f'spec={sp} seed={seed}: {outs[0]} vs {outs[1]}')
  return None


_ARGS = [('n0', 'int'), ('n1', 'int'), ('n2', 'int'), ('n3', 'int'), ('size', 'int'), ('f0', 'int'), ('f1', 'int'), ('f2', 'int'),
         ('f3', 'int'), ('rng', 'rng'), ('n4', 'int'), ('f4', 'int')]
SEEDED = ['mut_uniform', 'mut_swap', 'rec_uniform', 'rec_kpoint1', 'rec_pmx', 'sel_random', 'sel_sample', 'x_with_prob', 'x_choice',
          'x_pipeline']


def h_op_r(params, n0, n1, n2, n3, size, f0, f1, f2, f3, rng, n4=0, f4=0):
  # shard-level cut of the population: first member from a window of the enumeration
  lo, hi = params.get('window', (0, 10 ** 6))
  if not lo <= n0 < hi:
    raise Assume()
  return h_op(params, n0, n1, n2, n3, size, f0, f1, f2, f3, rng, n4, f4)


def shards(tier, seed):
  quick = tier == 'quick'
  b = 30 if quick else 400
  out = []
  default_specs = ['named'] if quick else ['named', 'sorted_multi', 'multi_nested', 'perm', 'sorted_nd']
  for cname, cparams in core_shards():
    out.append(dict(name=cname, fn='h_op_core', params=cparams, args=_ARGS, budget_s=240 if quick else 900, expect_s=25, per_path_s=20))
  for name in OPS:
    specs = [NEEDS[name]] if name in NEEDS else default_specs
    if name in ('rec_average', 'rec_wavg'):
      specs = specs + ['cond_floats']
    if name in ('rec_kpoint1', 'rec_kpoint2', 'rec_segmented', 'mut_uniform', 'mut_swap', 'rec_uniform') and 'sorted_nd' not in specs:
      specs = specs + ['sorted_nd']
    for sp in specs:
      out.append(dict(name=f'op:{name}:{sp}', fn='h_op_r', params=dict(op=name, spec=sp), args=_ARGS, budget_s=b, per_path_s=20))
  for name in SEEDED:
    sp = NEEDS.get(name, 'named')
    out.append(dict(name=f'seeded:{name}:{sp}', fn='h_seeded', params=dict(op=name, spec=sp),
                    args=[('n0', 'int'), ('n1', 'int'), ('n2', 'int'), ('seed_sel', 'int'), ('g1', 'int'), ('g2', 'int')],
                    budget_s=b, per_path_s=20))
  return out


META = dict(
    rule='Shard = (operator expression, spec); symbolic: population members (indices into the enumeration of valid DNAs), '
         'population size 2..4, fitness values (ties and every order), every RNG draw of every operator in the expression.',
    bounds=['operators: ' + ', '.join(OPS), 'specs: ' + ', '.join(_spaces()), 'population size 2..4, fitness in {0,1,2}',
            'RNG: every draw a fresh solver variable in range; random() in {0, 1/4, 2/4, 3/4}',
            'seeded determinism: seeds {0,1,7} x two global-RNG states'],
    stubs=['operators run natively; randomness = engine.chx.SymRandom (each draw decided by the solver)'],
    outside_claim=['NEAT-specific operators, NSGA2 crowding internals', 'numerics of float crossover beyond range membership',
                   'operator expressions outside the listed set'],
    assumptions=[],
)


# --- core shards: small enough to close (every member combination x every RNG draw, within the stated cut) ---
FITNESS_SENSITIVE = {'sel_proportional_w', 'sel_top', 'sel_bottom', 'x_pipeline', 'x_elitism', 'x_difference', 'x_inversion', 'x_slice', 'x_if_true',
                     'x_rec_then_mut'}

# op -> [(spec, population sizes, number of representative members, fitness values)]
_A = lambda sp='named': [(sp, [2, 3], 3, [0, 1, 2])]
_SEL = [('named', [2], 3, [0, 1, 2]), ('named', [3], 1, [0, 1, 2]), ('named', [4], 1, [0, 1, 2])]
CORE = {
    'mut_uniform': [('named', [1], 3, None)],
    'mut_swap': [('named', [1], 3, None), ('tiny', [1, 2], 3, None)],
    'rec_uniform': [('tiny', [2], 3, None)],
    'rec_sample': [('tiny', [2], 3, None)],
    'rec_kpoint1': [('named', [2], 4, None)], 'rec_kpoint2': [('named', [2], 4, None)], 'rec_segmented': [('named', [2], 4, None)],
    'rec_pmx': [('perm', [2], 4, None)], 'rec_order': [('perm', [2], 4, None)], 'rec_cycle': [('perm', [2], 4, None)],
    'rec_average': _A('floats') + [('cond_floats', [2, 3], 4, None)], 'rec_wavg': _A('floats') + [('cond_floats', [2, 3], 4, None)],
    'sel_random': [('named', [2, 3], 2, None)],
    'sel_random_repl': [('named', [2], 2, None), ('named', [3], 1, None)],
    'sel_sample': [('named', [2, 3], 2, None)],
    'sel_proportional': [('named', [2, 3], 2, None)],
    'sel_proportional_w': [('named', [3, 4, 5], 1, [0, 1])],
    'sel_top': _SEL, 'sel_bottom': _SEL, 'x_difference': _SEL, 'x_inversion': _SEL, 'x_slice': _SEL,
    'sel_first': _A(), 'sel_last': _A(), 'x_union': _A(), 'x_intersection': _A(), 'x_symdiff': _A(), 'x_for_each': _A(),
    'x_pipeline': [('tiny', [2], 1, [0, 1])],
    'x_rec_then_mut': [('tiny', [2], 1, [0, 1])],
    'x_elitism': [('tiny', [2], 2, [0, 1, 2])],
    'x_if_true': [('named', [2], 3, [0, 1, 2]), ('tiny', [3], 1, [0, 1])],
    'x_repeat': [('tiny', [1], 3, None)], 'x_power': [('tiny', [1], 3, None)],
    'x_with_prob': [('named', [1], 3, None)],
    'x_until_change': [('tiny', [1], 3, None)],
    'x_choice': [('tiny', [1], 3, None)],
    'x_skip_concat': [('tiny', [3], 1, None), ('tiny', [2], 2, None)],
}


def core_shards():
  out = []
  for name, cuts in CORE.items():
    for sp, sizes, nr, fits in cuts:
      n = len(space(sp)[1])
      reps = {1: [n // 2], 2: [0, n - 1], 3: sorted({0, n // 2, n - 1}), 4: sorted({0, n // 3, 2 * n // 3, n - 1})}[nr]
      params = dict(op=name, spec=sp, reps=reps, sizes=sizes)
      if fits is not None:
        params['fits'] = fits
      out.append((f'core:{name}:{sp}:size{"".join(map(str, sizes))}:reps{nr}', params))
  return out


def h_op_core(params, n0, n1, n2, n3, size, f0, f1, f2, f3, rng, n4=0, f4=0):
  """h_op under a cut that makes the path tree finite and small: members drawn from `reps` (indices into the
  enumeration), population size from `sizes`, fitness symbolic only where the expression reads it."""
  reps, sizes = params['reps'], params['sizes']
  from engine.chx import concretize
  size = concretize(size, sizes)
  ns = [n0, n1, n2, n3, n4]
  fs = [f0, f1, f2, f3, f4]
  for k in range(5):
    if k < size:
      ns[k] = concretize(ns[k], reps)
      fs[k] = concretize(fs[k], params.get('fits', [0, 1, 2])) if params['op'] in FITNESS_SENSITIVE else k % 3
    else:
      ns[k], fs[k] = 0, 0
  return h_op(params, ns[0], ns[1], ns[2], ns[3], size, fs[0], fs[1], fs[2], fs[3], rng, ns[4], fs[4])
