"""Shared skeleton trees, operation surface and tree-integrity invariant for C01/C03/C07/C08/C09.

A skeleton builds a fresh symbolic tree (pg.Dict / pg.List / pg.Object nodes) with symbolic
int leaves. Operations are addressed as (op name, target node index in pre-order, symbolic
index/key selector, inserted value kind).
"""
import copy

import pyglove as pg
from engine.chx import Assume, Violation, reach


class Leaf(pg.Object):
  v: int = 0


class Obj(pg.Object):
  d: pg.typing.Dict() = pg.Dict()
  l: pg.typing.List(pg.typing.Any()) = pg.List()
  o: pg.typing.Object(Leaf) = Leaf()
  n: int = 0


class RefHolder(pg.Object):
  r: pg.typing.Any() = None
  k: pg.typing.Any() = None


def t_list(v):
  return pg.List([pg.Dict(a=v[0]), pg.List([v[1], pg.Dict(e=v[3])]), pg.Dict(b=pg.Dict(c=v[2]))])


def t_dict(v):
  return pg.Dict(x=pg.List([pg.Dict(p=v[0]), v[1]]), y=pg.Dict(z=pg.List([v[2]])), w=v[3])


def t_obj(v):
  return Obj(d=pg.Dict(k=v[0], m=pg.Dict(j=v[3])), l=pg.List([pg.Dict(q=v[1]), Leaf(v=v[3])]), o=Leaf(v=v[2]), n=v[3])


def t_mixed(v):
  return pg.Dict(objs=pg.List([Obj(n=v[0]), Leaf(v=v[1])]), h=RefHolder(r=pg.Dict(s=v[2]), k=pg.List([v[3]])))


def t_flat_list(v):
  return pg.List([pg.Dict(a=v[0]), pg.Dict(a=v[1]), pg.Dict(a=v[2]), pg.Dict(a=v[3])])


EXTERNAL = {}       # id(root) -> another tree that the root refers to (pg.Ref targets); checked together with the root


def t_inferred(v):
  """Values that are *inferred*: a pg.Ref to a node of another tree and ValueFromParentChain placeholders resolving to a
  node of an ancestor. The stored value is the placeholder; reading the key yields a node that lives elsewhere."""
  ext = pg.Dict(target=pg.Dict(t=v[0], deep=pg.Dict(u=v[1])))
  root = pg.Dict(x=pg.Dict(p=v[2], q=pg.List([pg.Dict(qq=v[3])])),
                 child=pg.Dict(x=pg.symbolic.ValueFromParentChain(), r=pg.Ref(ext.target), own=pg.Dict(o=v[0])),
                 lst=pg.List([pg.Ref(ext.target), pg.Dict(x=pg.symbolic.ValueFromParentChain())]))
  EXTERNAL.clear()
  EXTERNAL[id(root)] = ext
  return root


SKELETONS = dict(list=t_list, dict=t_dict, obj=t_obj, mixed=t_mixed, flat=t_flat_list, inferred=t_inferred)


def nodes_of(root):
  """Pre-order list of symbolic nodes (public traversal API)."""
  out = []

  def walk(n):
    out.append(n)
    for _, c in n.sym_items():
      if isinstance(c, pg.Symbolic):
        walk(c)
  walk(root)
  return out


def inv(root, tag='inv'):
  """Tree integrity invariant; returns None or (kind, detail)."""
  seen = {}
  bad = []

  def walk(node, parent, path):
    if id(node) in seen:
      bad.append(('node_twice', f'{path} and {seen[id(node)]}'))
      return
    seen[id(node)] = str(path)
    if node.sym_parent is not parent:
      bad.append(('wrong_parent', f'at {path}: parent is {type(node.sym_parent).__name__} path '
                  f'{getattr(node.sym_parent, "sym_path", None)}'))
    if node.sym_path != path:
      bad.append(('stale_path', f'at {path}: reports {node.sym_path}'))
    for k, c in node.sym_items():
      if isinstance(c, pg.Symbolic):
        walk(c, node, pg.KeyPath(k, path))
  root_path = root.sym_path
  walk(root, root.sym_parent, root_path)
  if bad:
    return bad[0]
  if id(root) in EXTERNAL:
    r = inv(EXTERNAL[id(root)])
    if r is not None:
      return ('referenced_tree:' + r[0], r[1])
  # lookup of every reported path from the root returns that very node
  for n in nodes_of(root):
    rel = n.sym_path - root_path if len(root_path) else n.sym_path
    try:
      got = rel.query(root) if len(rel) else root
    except Exception as e:  # pylint: disable=broad-except
      return ('lookup_fails', f'{n.sym_path}: {e!r}')
    if got is not n:
      return ('lookup_other_node', str(n.sym_path))
  return None


def detached_ok(old_nodes, root):
  """Nodes that were reachable before and are not now must not claim a parent inside this tree."""
  now = {id(n) for n in nodes_of(root)}
  for n in old_nodes:
    if id(n) not in now:
      p = n.sym_parent
      if p is not None and id(p) in now:
        return ('removed_node_keeps_parent', f'{type(n).__name__} formerly at {n.sym_path}')
  return None


# ---- inserted values ------------------------------------------------------------------------

VALUE_KINDS = ['leaf', 'subtree', 'existing', 'foreign', 'plain']


def make_value(kind, root, nodes, j, v):
  if kind == 'leaf':
    return v
  if kind == 'subtree':
    return pg.Dict(n=pg.List([v, pg.Dict(t=v)]))
  if kind == 'plain':
    return {'n': [v, {'t': v}]}
  if kind == 'existing':
    if not 0 < j < len(nodes):
      raise Assume()
    return nodes[j]
  if kind == 'foreign':
    other = pg.Dict(host=pg.List([pg.Dict(f=v)]))
    return other.host[0]
  raise AssertionError(kind)


# ---- operation surface -------------------------------------------------------------------

LIST_OPS = ['setitem', 'delitem', 'insert', 'append', 'extend', 'pop', 'remove', 'clear', 'reverse', 'sort_key',
            'set_slice', 'del_slice', 'del_slice_neg', 'iadd', 'rebind_idx', 'rebind_insert', 'rebind_missing', 'rebind_multi', 'rebind_multi_far']
DICT_OPS = ['setitem', 'setattr', 'delitem', 'delattr', 'pop', 'popitem', 'clear', 'update', 'setdefault', 'ior',
            'rebind_key', 'rebind_kwargs', 'rebind_missing', 'rebind_fn']
OBJ_OPS = ['setattr', 'rebind_key', 'rebind_kwargs', 'rebind_fn', 'delattr']
ROOT_OPS = ['rebind_deep', 'rebind_deep2']
ALL_OPS = sorted(set(LIST_OPS + DICT_OPS + OBJ_OPS + ROOT_OPS))
MUTATING = ALL_OPS
NEW_KEY = 'nk'


def _pick(seq, i):
  """Select seq[i] for symbolic i by branching, so that the selected element stays concrete."""
  for idx, item in enumerate(list(seq)):
    if i == idx:
      return item
  raise Assume()


def _concretize(i, lo, hi):
  for c in range(lo, hi + 1):
    if i == c:
      return c
  raise Assume()


def apply_op(op, root, nodes, t, i, val, v2=0):
  """Applies op on nodes[t] (or on the root with a deep path ending at nodes[t]); i selects index/key.
  Returns a dict(result=..., rebound=<object the name refers to after an augmented assignment>)."""
  if not 0 <= t < len(nodes):
    raise Assume()
  node = nodes[t]
  out = {}
  if op in ROOT_OPS:
    # batched/deep rebind issued at the root, addressing a key inside nodes[t].
    keys = list(node.sym_keys())
    if t == 0:
      raise Assume()
    key = _pick(keys, i)
    path = str(pg.KeyPath(key, node.sym_path))
    if op == 'rebind_deep':
      root.rebind({path: val})
    else:
      other = nodes[0]
      ks = list(other.sym_keys())
      leafs = [k for k in ks if not isinstance(other.sym_getattr(k), pg.Symbolic)]
      k0 = (leafs or ks)[0]
      p0 = str(pg.KeyPath(k0, other.sym_path))
      if p0 == path or path.startswith(p0) or p0.startswith(path):
        raise Assume()
      root.rebind({path: val, p0: v2})
    return out
  if isinstance(node, pg.List):
    n = len(node)
    if op not in LIST_OPS:
      raise Assume()
    i = _concretize(i, -n - 2, n + 2)     # paths are formatted from indices: keep them concrete
    if op == 'setitem':
      if not -n <= i < n:
        raise Assume()
      node[i] = val
    elif op == 'delitem':
      if not -n <= i < n:
        raise Assume()
      del node[i]
    elif op == 'insert':
      if not -n - 1 <= i <= n + 1:
        raise Assume()
      node.insert(i, val)
    elif op == 'append':
      node.append(val)
    elif op == 'extend':
      node.extend([val, v2])
    elif op == 'pop':
      if not -n <= i < n:
        raise Assume()
      out['result'] = node.pop(i)
    elif op == 'remove':
      if n == 0:
        raise Assume()
      node.remove(node[_pick(range(n), i)])
    elif op == 'clear':
      node.clear()
    elif op == 'reverse':
      node.reverse()
    elif op == 'sort_key':
      node.sort(key=lambda e: -len(repr(type(e))) if i > 0 else len(repr(type(e))))
    elif op == 'set_slice':
      if not 0 <= i <= n:
        raise Assume()
      node[i:i + 1] = [val, v2]
    elif op == 'del_slice':
      if not 0 <= i <= n:
        raise Assume()
      del node[i:i + 2]
    elif op == 'del_slice_neg':
      # backward slices: from index i down to the start, every element (i even) or every second one (i odd)
      if not 0 <= i <= n:
        raise Assume()
      del node[i::-1 if i % 2 == 0 else -2]
    elif op == 'iadd':
      node += [val]
      out['rebound'] = node
    elif op == 'rebind_idx':
      if not 0 <= i < n:
        raise Assume()
      node.rebind({i: val})
    elif op == 'rebind_insert':
      if not 0 <= i <= n:
        raise Assume()
      node.rebind({i: pg.Insertion(val)})
    elif op == 'rebind_missing':
      if not 0 <= i < n:
        raise Assume()
      node.rebind({i: pg.MISSING_VALUE})
    elif op == 'rebind_multi':
      if not (0 <= i < n and n >= 2):
        raise Assume()
      j = (i + 1) % n
      node.rebind({i: pg.Insertion(val), j: pg.MISSING_VALUE} if i != j else {i: val})
    elif op == 'rebind_multi_far':
      # insertion and deletion two positions apart in one call (the elements in between shift, the tail stays in place)
      if not (0 <= i < n and n >= 4):
        raise Assume()
      j = (i + 2) % n
      node.rebind({i: pg.Insertion(val), j: pg.MISSING_VALUE})
    return out
  if isinstance(node, pg.Dict):
    keys = list(node.sym_keys())
    if op not in DICT_OPS:
      raise Assume()
    cand = keys + [NEW_KEY]
    key = _pick(cand, i)
    if op == 'setitem':
      node[key] = val
    elif op == 'setattr':
      node.__setattr__(key, val)   # (builtin setattr() runs the slot untraced under CrossHair)
    elif op == 'delitem':
      if key == NEW_KEY:
        raise Assume()
      del node[key]
    elif op == 'delattr':
      if key == NEW_KEY:
        raise Assume()
      node.__delattr__(key)
    elif op == 'pop':
      out['result'] = node.pop(key, None)
    elif op == 'popitem':
      if not keys:
        raise Assume()
      out['result'] = node.popitem()
    elif op == 'clear':
      node.clear()
    elif op == 'update':
      node.update({key: val, 'u2': v2})
    elif op == 'setdefault':
      out['result'] = node.setdefault(key, val)
    elif op == 'ior':
      node |= {key: val}
      out['rebound'] = node
    elif op == 'rebind_key':
      node.rebind({key: val})
    elif op == 'rebind_kwargs':
      node.rebind(**{key: val})
    elif op == 'rebind_missing':
      if key == NEW_KEY:
        raise Assume()
      node.rebind({key: pg.MISSING_VALUE})
    elif op == 'rebind_fn':
      if key == NEW_KEY:
        raise Assume()
      target = node.sym_getattr(key)
      node.rebind(lambda k, v, p: val if (p is node and v is target) else v, raise_on_no_change=False)
    return out
  if isinstance(node, pg.Object):
    if op not in OBJ_OPS:
      raise Assume()
    keys = list(node.sym_keys())
    key = _pick(keys, i)
    if op == 'setattr':
      node.__setattr__(key, val)   # (builtin setattr() runs the slot untraced under CrossHair)
    elif op == 'rebind_key':
      node.rebind({key: val})
    elif op == 'rebind_kwargs':
      node.rebind(**{key: val})
    elif op == 'delattr':
      node.__delattr__(key)
    elif op == 'rebind_fn':
      target = node.sym_getattr(key)
      node.rebind(lambda k, v, p: val if (p is node and v is target) else v, raise_on_no_change=False)
    return out
  raise Assume()


def applicable(op, node, t):
  """Whether `op` addresses a node of this kind at all (cheap pre-check used to cut the selector space)."""
  if op in ROOT_OPS:
    return t != 0 and bool(list(node.sym_keys()))
  if isinstance(node, pg.List):
    return op in LIST_OPS
  if isinstance(node, pg.Dict):
    return op in DICT_OPS
  if isinstance(node, pg.Object):
    return op in OBJ_OPS
  return False


def op_fits(op, skel):
  """Shard-level cut: operations that need a list of >= 4 elements only run on the skeleton that has one."""
  return op != 'rebind_multi_far' or skel == 'flat'


def snap(x):
  """Structural snapshot of a tree (also for values to_json cannot serialize: pg.Ref, inferred placeholders)."""
  if isinstance(x, pg.Ref):
    return ('ref', id(x.value))
  if isinstance(x, pg.Symbolic):
    return (type(x).__name__, [(k, snap(x.sym_getattr(k))) for k in x.sym_keys()])
  if isinstance(x, tuple):
    return tuple(snap(e) for e in x)
  return x


def fanout(node):
  return len(list(node.sym_keys()))


EXPECTED_ERRORS = (TypeError, ValueError, KeyError, IndexError, AttributeError, pg.WritePermissionError)
