"""C20 — HTML views: well-formed, data only as escaped text / attribute values, every key and leaf
present, value not modified. Formatting is the subject: the format() stub is OFF.

User strings (dict keys, values, docstring-like fields) are built character by character
from symbolic codes over an alphabet of HTML metacharacters; view options are symbolic. The
oracle tokenizes the output with the stdlib HTMLParser and compares the element/attribute
structure with the same value rendered with all data characters replaced by 'a'.
"""
import html
from html.parser import HTMLParser

import pyglove as pg
from engine.chx import Assume, Violation, reach, untraced, concretize

PROPERTY = 'C20'
LEVEL = 'model_checking'
REACH_POINTS = ['render', 'render.baseline_same_structure']

# single metacharacters plus character references (data that already looks escaped must be escaped again)
ALPHABET = ['<', '>', '&', '"', "'", '/', '!', '-', ']', 'a', 'b', '&lt;', '&#39;', '&amp']
VOID = {'br', 'hr', 'img', 'input', 'meta', 'link'}


class Doc(pg.Object):
  """A documented object."""
  title: str = 't'
  items: pg.typing.Any() = None
  note: pg.typing.Str().noneable() = None


class Unprintable:
  """A leaf whose repr fails: rendering it raises part-way through."""

  def __repr__(self):
    raise RuntimeError('unprintable')


class _Tok(HTMLParser):
  def __init__(self):
    super().__init__(convert_charrefs=True)
    self.struct = []       # ('start', tag, sorted attr names) / ('end', tag)
    self.stack = []
    self.errors = []
    self.text = []
    self.attr_values = []

  def handle_starttag(self, tag, attrs):
    self.struct.append(('start', tag, tuple(sorted(a for a, _ in attrs))))
    for a, v in attrs:
      self.attr_values.append((tag, a, v))
    if tag not in VOID:
      self.stack.append(tag)

  def handle_startendtag(self, tag, attrs):
    self.struct.append(('startend', tag, tuple(sorted(a for a, _ in attrs))))

  def handle_endtag(self, tag):
    self.struct.append(('end', tag))
    if not self.stack:
      self.errors.append(f'closing </{tag}> without open element')
    elif self.stack[-1] != tag:
      self.errors.append(f'</{tag}> closes <{self.stack[-1]}>')
      if tag in self.stack:
        while self.stack and self.stack.pop() != tag:
          pass
    else:
      self.stack.pop()

  def handle_data(self, data):
    self.text.append(data)

  def handle_comment(self, data):
    self.struct.append(('comment',))

  def handle_decl(self, decl):
    self.struct.append(('decl',))

  def unknown_decl(self, data):
    self.struct.append(('unknown_decl',))

  def handle_pi(self, data):
    self.struct.append(('pi',))


def tokenize(s):
  t = _Tok()
  t.feed(s)
  t.close()
  if t.stack:
    t.errors.append(f'unclosed elements {t.stack}')
  return t


def _mk_str(codes, n):
  out = ''
  for k in range(len(codes)):
    if k < n:
      ch = None
      for idx, a in enumerate(ALPHABET):
        if codes[k] == idx:
          ch = a
      if ch is None:
        raise Assume()
      out += ch
  return out


def build(shape, key, val, other):
  if shape == 'dict_kv':
    return pg.Dict({key: val, 'plain': [other, 1]})
  if shape == 'nested':
    return pg.Dict({'outer': pg.Dict({key: pg.List([val, {other: 2}])}), 'n': None})
  if shape == 'list':
    return pg.List([val, pg.Dict({key: other}), 3.5, True])
  if shape == 'object':
    return Doc(title=val, items=pg.Dict({key: [other]}), note=other)
  if shape == 'plain_dict':
    return {key: val, 'l': [other, {key: 1}]}
  raise AssertionError(shape)


def _strings(shape, key, val, other):
  keys = [key]
  vals = [val, other] if shape != 'nested' else [val]
  if shape in ('nested',):
    keys.append(other)
  return keys, vals


def _options(collapse, tip1, tip2, kstyle, flt, maxlen, uncollapse):
  opts = {}
  if collapse == 0:
    opts['collapse_level'] = None
  elif 1 <= collapse <= 3:
    opts['collapse_level'] = collapse - 1
  else:
    raise Assume()
  opts['enable_summary_tooltip'] = bool(tip1)
  opts['enable_key_tooltip'] = bool(tip2)
  if kstyle == 0:
    opts['key_style'] = 'summary'
  elif kstyle == 1:
    opts['key_style'] = 'label'
  else:
    raise Assume()
  if flt == 1:
    opts['exclude_keys'] = ['plain', 'n', 'l']
  elif flt == 2:
    opts['include_keys'] = lambda k, v, p: True
  elif flt != 0:
    raise Assume()
  if maxlen == 0:
    opts['max_summary_len_for_str'] = 0
  elif maxlen == 1:
    opts['max_summary_len_for_str'] = 1
  elif maxlen == 2:
    opts['max_summary_len_for_str'] = 80
  else:
    raise Assume()
  if uncollapse:
    opts['uncollapse'] = ['plain', 'outer']
  return opts


def h_render(params, k0, k1, kn, v0, v1, vn, o0, on, collapse, tip1, tip2, kstyle, flt, maxlen, uncollapse, fail_first=False, v2=0):
  shape = params['shape']
  if not (1 <= kn <= 2 and 0 <= vn <= 3 and 1 <= on <= 1):
    raise Assume()
  key, val, other = _mk_str((k0, k1), kn), _mk_str((v0, v1, v2), vn), _mk_str((o0,), on)
  if shape == 'nested' and other == key:
    raise Assume()
  opts = _options(collapse, tip1, tip2, kstyle, flt, maxlen, uncollapse)
  x = build(shape, key, val, other)
  before = pg.to_json(x) if isinstance(x, pg.Symbolic) else repr(x)
  if fail_first:
    # an earlier render on this thread failed part-way under restrictive options: it must leave nothing behind
    try:
      pg.to_html(pg.Dict({key: 1, 'boom': Unprintable()}), exclude_keys=[key, 'plain'], enable_summary_tooltip=False,
                 enable_key_tooltip=False, collapse_level=None)
    except RuntimeError:
      pass
  reach('render')
  out = pg.to_html(x, **opts)
  s = out.content if hasattr(out, 'content') else str(out)
  tag = f'{shape}'
  tok = tokenize(s)
  if tok.errors:
    return Violation(f'malformed:{tag}', f'key={key!r} val={val!r}: {tok.errors[0]}')
  # baseline: the same tree with every data character replaced by a harmless letter
  bx = build(shape, 'a' * len(key), 'a' * len(val), 'b' * len(other))
  bout = pg.to_html(bx, **opts)
  bs = bout.content if hasattr(bout, 'content') else str(bout)
  btok = tokenize(bs)
  if [e for e in tok.struct] != [e for e in btok.struct]:
    # find the first difference
    diff = next((i for i, (a, b) in enumerate(zip(tok.struct, btok.struct)) if a != b), min(len(tok.struct), len(btok.struct)))
    where = tok.struct[diff] if diff < len(tok.struct) else ('end-of-document',)
    return Violation(f'data_changed_markup_structure:{tag}', f'key={key!r} val={val!r} other={other!r}: element #{diff} is {where!r}, '
                     f'baseline has {btok.struct[diff] if diff < len(btok.struct) else None!r}')
  reach('render.baseline_same_structure')
  # attribute values must not differ from the baseline except by the (escaped) data itself
  for (t1, a1, v1_), (t2, a2, v2_) in zip(tok.attr_values, btok.attr_values):
    if a1 != a2:
      return Violation(f'attribute_injected:{tag}', f'{a1} vs {a2}')
  # presence of keys and leaves (unless filtered out / elided by the options)
  text = ''.join(tok.text)
  keys, vals = _strings(shape, key, val, other)
  for kk in keys:
    if kk not in text and not any(kk in (v or '') for _, _, v in tok.attr_values):
      return Violation(f'key_missing_from_output:{tag}', f'key={kk!r} opts={sorted(opts)}')
  for vv in vals:
    # a string leaf is shown either verbatim or as its Python literal (repr escapes quotes when both kinds occur)
    if vv and vv not in text and repr(vv)[1:-1] not in text and 'exclude_keys' not in opts:
      return Violation(f'leaf_value_missing_from_output:{tag}', f'value={vv!r}')
  after = pg.to_json(x) if isinstance(x, pg.Symbolic) else repr(x)
  if after != before:
    return Violation(f'rendering_modified_value:{tag}', '')
  return None


_ARGS = [('k0', 'int'), ('k1', 'int'), ('kn', 'int'), ('v0', 'int'), ('v1', 'int'), ('vn', 'int'), ('o0', 'int'), ('on', 'int'),
         ('collapse', 'int'), ('tip1', 'bool'), ('tip2', 'bool'), ('kstyle', 'int'), ('flt', 'int'), ('maxlen', 'int'),
         ('uncollapse', 'bool'), ('fail_first', 'bool'), ('v2', 'int')]
SHAPES = ['dict_kv', 'nested', 'list', 'object', 'plain_dict']


NASTY_KEYS = ((0, 5, 2), (3, 1, 2), (8, 0, 1))        # '</', '">', ']'
NASTY_VALS = ((0, 7, 0, 2), (2, 0, 0, 1), (0, 0, 0, 0), (11, 0, 9, 3))    # '<-', '&', '', '&lt;<a'


NASTY_PAIRS = ((0, 0), (1, 1), (2, 3), (0, 2))


def h_render_p(params, k0, k1, kn, v0, v1, vn, o0, on, collapse, tip1, tip2, kstyle, flt, maxlen, uncollapse, fail_first, v2):
  """Shard-level cut: (shape, collapse, key style) fixed by the shard. Every symbolic choice is a solver decision made
  concrete by branching; rendering, tokenizing and the oracle run natively."""
  fam = params['family']
  A = range(len(ALPHABET))
  collapse, kstyle = params['collapse'], params['kstyle']
  if fam in ('key', 'val', 'val3', 'other'):
    # one string fully symbolic over the alphabet, the others fixed nasty strings, remaining options at their defaults
    tip1, tip2, flt, maxlen, uncollapse, fail_first = True, True, 0, 2, False, False
    sk0, sk1, skn, sv0, sv1, sv2, svn, so0 = k0, k1, kn, v0, v1, v2, vn, o0      # the solver's variables
    (k0, k1, kn), (v0, v1, v2, vn), o0 = NASTY_KEYS[0], NASTY_VALS[0], 2
    if fam == 'key':
      kn = concretize(skn, [1, 2])
      k0 = concretize(sk0, A)
      k1 = concretize(sk1, A) if kn == 2 else 0
    elif fam == 'val':
      vn = concretize(svn, [0, 1, 2])
      v0 = concretize(sv0, A) if vn >= 1 else 0
      v1 = concretize(sv1, A) if vn >= 2 else 0
    elif fam == 'val3':
      # three tokens, the first one a character reference or an opening bracket
      vn = 3
      v0 = concretize(sv0, [0, 2, 11, 12, 13])
      v1, v2 = concretize(sv1, A), concretize(sv2, A)
    else:
      o0 = concretize(so0, A)
  elif fam == 'options':
    # all option combinations, key/value from nasty strings
    ks, vs = NASTY_PAIRS[concretize(k0, range(len(NASTY_PAIRS)))]
    (k0, k1, kn), (v0, v1, v2, vn), o0 = NASTY_KEYS[ks], NASTY_VALS[vs], 0
    tip1, tip2, uncollapse, fail_first = bool(tip1), bool(tip2), bool(uncollapse), bool(fail_first)
    flt, maxlen = concretize(flt, [0, 1, 2]), concretize(maxlen, [0, 1, 2])
  else:
    raise AssertionError(fam)
  with untraced():
    return h_render(params, k0, k1, kn, v0, v1, vn, o0, 1, collapse, tip1, tip2, kstyle, flt, maxlen, uncollapse, fail_first, v2)


def shards(tier, seed):
  quick = tier == 'quick'
  out = []
  for shape in SHAPES:
    for collapse in (0, 1, 2):
      for kstyle in (0, 1):
        for family in ('key', 'val', 'val3', 'other', 'options'):
          if family == 'val3' and quick and (collapse, kstyle) != (0, 0):
            continue
          if family == 'options' and quick and (collapse, kstyle) not in ((0, 0), (1, 1), (2, 0)):
            continue
          # expect_s: CPU seconds the shard needs to close (sizes the tier); budget_s: when it is given up as INCOMPLETE
          expect = dict(key=20, val=20, other=3, val3=50, options=50)[family]
          out.append(dict(name=f'render:{shape}:c{collapse}:k{kstyle}:{family}', fn='h_render_p',
                          params=dict(shape=shape, collapse=collapse, kstyle=kstyle, family=family), args=_ARGS,
                          budget_s=120 if quick else 900, expect_s=expect, per_path_s=30, format_stub=False))
  return out


META = dict(
    rule='Shard = (value shape, collapse level, key style, family); families key / val / other: one string symbolic over the '
         'token alphabet (key 1-2 tokens, value 0-2 tokens, val3: 3 tokens starting with a character reference or an opening '
         'bracket), the other strings fixed nasty ones, default options; family options: every combination of tooltip bits, '
         'key filter, max summary length, uncollapse, a failed earlier render, over 4 pairs of nasty key / value strings.',
    bounds=['alphabet %r' % ALPHABET, 'shapes: ' + ', '.join(SHAPES), 'collapse level None/0/1, key style summary/label, '
            'tooltips on/off, include/exclude keys, max_summary_len_for_str in {0,1,80}, uncollapse paths on/off'],
    stubs=['reference tokenizer = html.parser.HTMLParser of the standard library'],
    outside_claim=['CSS/JS semantics, browser error recovery', 'strings longer than 3 alphabet tokens, characters outside the alphabet', 'class and field names '
                   '(Python identifiers cannot contain metacharacters)', 'custom controls (tab, progress bar, label)'],
    assumptions=['"no data-introduced element/attribute" = same element and attribute-name sequence as the same value '
                 'rendered with harmless letters'],
)
