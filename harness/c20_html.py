"""C20 — HTML views: well-formed, data only as escaped text / attribute values, every key and leaf
present, value not modified. Formatting is the subject: the format() stub is OFF.

User strings (dict keys, values, docstring-like fields) are built character by character
from symbolic codes over an alphabet of HTML metacharacters; view options are symbolic. The
oracle tokenizes the output with the stdlib HTMLParser and compares the element/attribute
structure with the same value rendered with all data characters replaced by 'a'.
"""
import html
from html.parser import HTMLParser

import pyglove as pg
from engine.chx import Assume, Violation, reach

PROPERTY = 'C20'
LEVEL = 'model_checking'
REACH_POINTS = ['render', 'render.baseline_same_structure']

ALPHABET = ['<', '>', '&', '"', "'", '/', '!', '-', ']', 'a', 'b']
VOID = {'br', 'hr', 'img', 'input', 'meta', 'link'}


class Doc(pg.Object):
  """A documented object."""
  title: str = 't'
  items: pg.typing.Any() = None
  note: pg.typing.Str().noneable() = None


class Unprintable:
  """A leaf whose repr fails: rendering it raises part-way through."""

  def __repr__(self):
    raise RuntimeError('unprintable')


class _Tok(HTMLParser):
  def __init__(self):
    super().__init__(convert_charrefs=True)
    self.struct = []       # ('start', tag, sorted attr names) / ('end', tag)
    self.stack = []
    self.errors = []
    self.text = []
    self.attr_values = []

  def handle_starttag(self, tag, attrs):
    self.struct.append(('start', tag, tuple(sorted(a for a, _ in attrs))))
    for a, v in attrs:
      self.attr_values.append((tag, a, v))
    if tag not in VOID:
      self.stack.append(tag)

  def handle_startendtag(self, tag, attrs):
    self.struct.append(('startend', tag, tuple(sorted(a for a, _ in attrs))))

  def handle_endtag(self, tag):
    self.struct.append(('end', tag))
    if not self.stack:
      self.errors.append(f'closing </{tag}> without open element')
    elif self.stack[-1] != tag:
      self.errors.append(f'</{tag}> closes <{self.stack[-1]}>')
      if tag in self.stack:
        while self.stack and self.stack.pop() != tag:
          pass
    else:
      self.stack.pop()

  def handle_data(self, data):
    self.text.append(data)

  def handle_comment(self, data):
    self.struct.append(('comment',))

  def handle_decl(self, decl):
    self.struct.append(('decl',))

  def unknown_decl(self, data):
    self.struct.append(('unknown_decl',))

  def handle_pi(self, data):
    self.struct.append(('pi',))


def tokenize(s):
  t = _Tok()
  t.feed(s)
  t.close()
  if t.stack:
    t.errors.append(f'unclosed elements {t.stack}')
  return t


def _mk_str(codes, n):
  out = ''
  for k in range(len(codes)):
    if k < n:
      ch = None
      for idx, a in enumerate(ALPHABET):
        if codes[k] == idx:
          ch = a
      if ch is None:
        raise Assume()
      out += ch
  return out


def build(shape, key, val, other):
  if shape == 'dict_kv':
    return pg.Dict({key: val, 'plain': [other, 1]})
  if shape == 'nested':
    return pg.Dict({'outer': pg.Dict({key: pg.List([val, {other: 2}])}), 'n': None})
  if shape == 'list':
    return pg.List([val, pg.Dict({key: other}), 3.5, True])
  if shape == 'object':
    return Doc(title=val, items=pg.Dict({key: [other]}), note=other)
  if shape == 'plain_dict':
    return {key: val, 'l': [other, {key: 1}]}
  raise AssertionError(shape)


def _strings(shape, key, val, other):
  keys = [key]
  vals = [val, other] if shape != 'nested' else [val]
  if shape in ('nested',):
    keys.append(other)
  return keys, vals


def _options(collapse, tip1, tip2, kstyle, flt, maxlen, uncollapse):
  opts = {}
  if collapse == 0:
    opts['collapse_level'] = None
  elif 1 <= collapse <= 3:
    opts['collapse_level'] = collapse - 1
  else:
    raise Assume()
  opts['enable_summary_tooltip'] = bool(tip1)
  opts['enable_key_tooltip'] = bool(tip2)
  if kstyle == 0:
    opts['key_style'] = 'summary'
  elif kstyle == 1:
    opts['key_style'] = 'label'
  else:
    raise Assume()
  if flt == 1:
    opts['exclude_keys'] = ['plain', 'n', 'l']
  elif flt == 2:
    opts['include_keys'] = lambda k, v, p: True
  elif flt != 0:
    raise Assume()
  if maxlen == 0:
    opts['max_summary_len_for_str'] = 0
  elif maxlen == 1:
    opts['max_summary_len_for_str'] = 1
  elif maxlen == 2:
    opts['max_summary_len_for_str'] = 80
  else:
    raise Assume()
  if uncollapse:
    opts['uncollapse'] = ['plain', 'outer']
  return opts


def h_render(params, k0, k1, kn, v0, v1, vn, o0, on, collapse, tip1, tip2, kstyle, flt, maxlen, uncollapse, fail_first=False):
  shape = params['shape']
  if not (1 <= kn <= 2 and 0 <= vn <= 2 and 1 <= on <= 1):
    raise Assume()
  key, val, other = _mk_str((k0, k1), kn), _mk_str((v0, v1), vn), _mk_str((o0,), on)
  if shape == 'nested' and other == key:
    raise Assume()
  opts = _options(collapse, tip1, tip2, kstyle, flt, maxlen, uncollapse)
  x = build(shape, key, val, other)
  before = pg.to_json(x) if isinstance(x, pg.Symbolic) else repr(x)
  if fail_first:
    # an earlier render on this thread failed part-way under restrictive options: it must leave nothing behind
    try:
      pg.to_html(pg.Dict({key: 1, 'boom': Unprintable()}), exclude_keys=[key, 'plain'], enable_summary_tooltip=False,
                 enable_key_tooltip=False, collapse_level=None)
    except RuntimeError:
      pass
  reach('render')
  out = pg.to_html(x, **opts)
  s = out.content if hasattr(out, 'content') else str(out)
  tag = f'{shape}'
  tok = tokenize(s)
  if tok.errors:
    return Violation(f'malformed:{tag}', f'key={key!r} val={val!r}: {tok.errors[0]}')
  # baseline: the same tree with every data character replaced by a harmless letter
  bx = build(shape, 'a' * len(key), 'a' * len(val), 'b' * len(other))
  bout = pg.to_html(bx, **opts)
  bs = bout.content if hasattr(bout, 'content') else str(bout)
  btok = tokenize(bs)
  if [e for e in tok.struct] != [e for e in btok.struct]:
    # find the first difference
    diff = next((i for i, (a, b) in enumerate(zip(tok.struct, btok.struct)) if a != b), min(len(tok.struct), len(btok.struct)))
    where = tok.struct[diff] if diff < len(tok.struct) else ('end-of-document',)
    return Violation(f'data_changed_markup_structure:{tag}', f'key={key!r} val={val!r} other={other!r}: element #{diff} is {where!r}, '
                     f'baseline has {btok.struct[diff] if diff < len(btok.struct) else None!r}')
  reach('render.baseline_same_structure')
  # attribute values must not differ from the baseline except by the (escaped) data itself
  for (t1, a1, v1_), (t2, a2, v2_) in zip(tok.attr_values, btok.attr_values):
    if a1 != a2:
      return Violation(f'attribute_injected:{tag}', f'{a1} vs {a2}')
  # presence of keys and leaves (unless filtered out / elided by the options)
  text = ''.join(tok.text)
  keys, vals = _strings(shape, key, val, other)
  for kk in keys:
    if kk not in text and not any(kk in (v or '') for _, _, v in tok.attr_values):
      return Violation(f'key_missing_from_output:{tag}', f'key={kk!r} opts={sorted(opts)}')
  for vv in vals:
    if vv and vv not in text and 'exclude_keys' not in opts:
      return Violation(f'leaf_value_missing_from_output:{tag}', f'value={vv!r}')
  after = pg.to_json(x) if isinstance(x, pg.Symbolic) else repr(x)
  if after != before:
    return Violation(f'rendering_modified_value:{tag}', '')
  return None


_ARGS = [('k0', 'int'), ('k1', 'int'), ('kn', 'int'), ('v0', 'int'), ('v1', 'int'), ('vn', 'int'), ('o0', 'int'), ('on', 'int'),
         ('collapse', 'int'), ('tip1', 'bool'), ('tip2', 'bool'), ('kstyle', 'int'), ('flt', 'int'), ('maxlen', 'int'),
         ('uncollapse', 'bool'), ('fail_first', 'bool')]
SHAPES = ['dict_kv', 'nested', 'list', 'object', 'plain_dict']


def h_render_p(params, k0, k1, kn, v0, v1, vn, o0, on, collapse, tip1, tip2, kstyle, flt, maxlen, uncollapse, fail_first):
  # shard-level cut: option sub-vector fixed by the shard, strings symbolic
  if (collapse, kstyle) != (params['collapse'], params['kstyle']):
    raise Assume()
  if params.get('family') == 'strings':
    # all characters symbolic, remaining options at their defaults
    if not (tip1 and tip2) or flt != 0 or maxlen != 2 or uncollapse:
      raise Assume()
  elif params.get('family') == 'options':
    # all option combinations, key/value from three nasty strings
    if not ((k0, k1, kn) in ((0, 5, 2), (3, 1, 2), (8, 0, 1)) and (v0, v1, vn) in ((0, 7, 2), (2, 0, 1), (0, 0, 0)) and o0 == 0):
      raise Assume()
  if fail_first and params.get('family') != 'options':
    raise Assume()
  return h_render(params, k0, k1, kn, v0, v1, vn, o0, on, collapse, tip1, tip2, kstyle, flt, maxlen, uncollapse, fail_first)


def shards(tier, seed):
  quick = tier == 'quick'
  out = []
  for shape in SHAPES:
    for collapse in (0, 1, 2):
      for kstyle in (0, 1):
        for family in ('strings', 'options'):
          out.append(dict(name=f'render:{shape}:c{collapse}:k{kstyle}:{family}', fn='h_render_p',
                          params=dict(shape=shape, collapse=collapse, kstyle=kstyle, family=family), args=_ARGS,
                          budget_s=35 if quick else 900, per_path_s=30, format_stub=False))
  return out


META = dict(
    rule='Shard = (value shape, collapse level, key style); symbolic: characters of one dict key (1-2 chars), one value '
         '(0-2 chars) and a second string (1 char) over the metacharacter alphabet, tooltip bits, filter, max summary '
         'length, uncollapse.',
    bounds=['alphabet %r' % ALPHABET, 'shapes: ' + ', '.join(SHAPES), 'collapse level None/0/1, key style summary/label, '
            'tooltips on/off, include/exclude keys, max_summary_len_for_str in {0,1,80}, uncollapse paths on/off'],
    stubs=['reference tokenizer = html.parser.HTMLParser of the standard library'],
    outside_claim=['CSS/JS semantics, browser error recovery', 'strings longer than 2 characters', 'class and field names '
                   '(Python identifiers cannot contain metacharacters)', 'custom controls (tab, progress bar, label)'],
    assumptions=['"no data-introduced element/attribute" = same element and attribute-name sequence as the same value '
                 'rendered with harmless letters'],
)
