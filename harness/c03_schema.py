"""C03 — a typed symbolic value always satisfies its schema; rejected writes are not stored.

Two families: (1) typed pg.List / pg.Dict whose specs are built from *symbolic* ranges and
size bounds (unbounded ints), hit by every list/dict mutator with symbolic arguments; (2) a
pg.Object class tree covering the value-spec vocabulary, hit by the whole operation surface
of harness.treeops with symbolic value kinds. The oracle is an independent reference
predicate over the declared schema, evaluated after every call, successful or failed.
"""
import pyglove as pg
from pyglove.core import typing as pgt
from engine.chx import Assume, Violation, reach
from harness import treeops as T

PROPERTY = 'C03'
LEVEL = 'model_checking'
REACH_POINTS = ['list.accepted', 'list.rejected', 'dict.accepted', 'dict.rejected', 'obj.applied', 'obj.raised', 'partial']

_REJ = (TypeError, ValueError, KeyError, IndexError)

# ---- family 1: typed list with symbolic spec ---------------------------------------------

TLIST_OPS = ['append', 'insert', 'extend', 'setitem', 'set_slice', 'delitem', 'del_slice', 'del_slice_neg', 'pop', 'remove', 'clear', 'iadd',
             'imul', 'rebind_idx', 'rebind_append', 'rebind_insert', 'rebind_missing', 'rebind_multi', 'add', 'mul', 'sort',
             'reverse', 'append_none', 'append_str', 'append_missing']


def _conc(i, lo, hi):
  for c in range(lo, hi + 1):
    if i == c:
      return c
  raise Assume()


def _list_ok(xs, lo, hi, mn, mx, noneable=False):
  n = len(xs)
  if n < mn:
    return f'len {n} < min_size'
  if mx is not None and n > mx:
    return f'len {n} > max_size'
  for k, e in enumerate(xs):
    if e is None:
      if not noneable:
        return f'[{k}] is None'
      continue
    if pg.MISSING_VALUE == e:
      return f'[{k}] is MISSING'
    if not isinstance(e, int):          # (bool is an int for pg.typing.Int, as in Python)
      return f'[{k}] is {type(e).__name__}'
    if lo is not None and e < lo:
      return f'[{k}] below min'
    if hi is not None and e > hi:
      return f'[{k}] above max'
  return None


def h_tlist(params, lo, hi, mn, mx, x0, x1, x2, n, i, v, w, m):
  op = params['op']
  if mn is None:
    mn_eff = 0
  else:
    mn_eff = mn
  if not 0 <= n <= 3:
    raise Assume()
  xs = [x0, x1, x2][:_conc(n, 0, 3)]
  try:
    spec = pgt.List(pgt.Int(min_value=lo, max_value=hi), min_size=mn, max_size=mx)
    sut = pg.List(list(xs), value_spec=spec)
  except _REJ:
    raise Assume()                       # invalid spec or initial value: outside the precondition
  bad = _list_ok(list(sut), lo, hi, mn_eff, mx)
  if bad:
    return Violation('tlist:constructor_accepted_invalid_value', bad)
  ln = len(sut)
  res = sut
  raised = None
  before = list(sut)
  try:
    if op == 'append':
      sut.append(v)
    elif op == 'append_none':
      sut.append(None)
    elif op == 'append_str':
      sut.append('s')
    elif op == 'append_missing':
      sut.append(pg.MISSING_VALUE)
    elif op == 'insert':
      sut.insert(_conc(i, -ln - 1, ln + 1), v)
    elif op == 'extend':
      sut.extend([v, w])
    elif op == 'setitem':
      sut[_conc(i, -ln, ln - 1)] = v
    elif op == 'set_slice':
      a = _conc(i, 0, ln)
      sut[a:a + _conc(m, 0, 2)] = [v, w]
    elif op == 'delitem':
      del sut[_conc(i, -ln, ln - 1)]
    elif op == 'del_slice':
      a = _conc(i, 0, ln)
      del sut[a:a + 2]
    elif op == 'del_slice_neg':
      a = _conc(i, 0, ln)
      if v > 0:
        del sut[a::-1]         # from index a down to the start
      else:
        del sut[:a:-1]         # from the end down to (not including) index a
    elif op == 'pop':
      sut.pop(_conc(i, -ln, ln - 1))
    elif op == 'remove':
      sut.remove(v)
    elif op == 'clear':
      sut.clear()
    elif op == 'iadd':
      sut += [v]
      res = sut
    elif op == 'imul':
      sut *= _conc(m, 0, 2)
      res = sut
    elif op == 'add':
      res = sut + [v]
    elif op == 'mul':
      res = sut * _conc(m, 0, 2)
    elif op == 'sort':
      sut.sort()
    elif op == 'reverse':
      sut.reverse()
    elif op == 'rebind_idx':
      sut.rebind({_conc(i, 0, ln - 1): v})
    elif op == 'rebind_append':
      sut.rebind({ln: v})
    elif op == 'rebind_insert':
      sut.rebind({_conc(i, 0, ln): pg.Insertion(v)})
    elif op == 'rebind_missing':
      sut.rebind({_conc(i, 0, ln - 1): pg.MISSING_VALUE})
    elif op == 'rebind_multi':
      sut.rebind({0: v, ln: w})
    else:
      raise AssertionError(op)
  except _REJ as e:
    raised = e
  reach('list.rejected' if raised else 'list.accepted')
  for name, val in (('receiver', sut), ('result', res)):
    if not isinstance(val, pg.List):
      return Violation(f'tlist:{op}:{name}_not_pg_list', repr(type(val)))
    bad = _list_ok(list(val), lo, hi, mn_eff, mx)
    if bad:
      cause = bad.split(' ', 1)[1] if bad.startswith('[') else bad.split(' ')[-1]
      return Violation(f'tlist:{op}:{name}_violates_schema:{cause.replace(" ", "_")}' + (':after_error' if raised else ''),
                       f'{list(val)!r} spec Int({lo},{hi}) size [{mn_eff},{mx}]: {bad}')
  if raised is not None and op not in ('extend', 'set_slice', 'rebind_multi') and list(sut) != before:
    return Violation(f'tlist:{op}:rejected_write_changed_value', f'{before!r} -> {list(sut)!r}')
  return None


# ---- family 1b: typed dict with symbolic spec -----------------------------------------------

TDICT_OPS = ['set_a', 'set_b', 'set_dyn', 'set_bad_key', 'set_none', 'del_a', 'del_dyn', 'pop_a', 'popitem', 'clear', 'update',
             'ior', 'setdefault_new', 'rebind_a', 'rebind_missing_a', 'set_missing_a', 'set_str']


def _dict_ok(d, lo, hi, dflt, partial):
  keys = list(d.keys())
  for k in keys:
    if k not in ('a', 'b') and not (isinstance(k, str) and k.startswith('x')):
      return f'undeclared key {k!r}'
  if 'a' not in keys:
    return 'required key a absent'
  if 'b' not in keys:
    return 'defaulted key b absent'
  a = d.sym_getattr('a')
  if pg.MISSING_VALUE == a:
    if not partial:
      return 'required a is MISSING'
  elif not isinstance(a, int):
    return f'a is {type(a).__name__}'
  elif (lo is not None and a < lo) or (hi is not None and a > hi):
    return 'a out of range'
  b = d.sym_getattr('b')
  if b is not None and not isinstance(b, int):
    return f'b is {type(b).__name__}'
  for k in keys:
    if k not in ('a', 'b'):
      e = d.sym_getattr(k)
      if not isinstance(e, int) or e < 0:
        return f'dynamic value {k} invalid'
  return None


def h_tdict(params, lo, hi, dflt, a0, b0, has_b, has_x, x0, v, w, partial):
  op = params['op']
  try:
    spec = pgt.Dict([('a', pgt.Int(min_value=lo, max_value=hi)), ('b', pgt.Int(default=dflt).noneable()),
                     (pgt.StrKey('x.*'), pgt.Int(min_value=0))])
    init = {'a': a0}
    if has_b:
      init['b'] = b0
    if has_x:
      init['x1'] = x0
    if partial:
      reach('partial')
      init.pop('a')
    sut = pg.Dict(init, value_spec=spec, allow_partial=partial)
  except _REJ:
    raise Assume()
  bad = _dict_ok(sut, lo, hi, dflt, partial)
  if bad:
    return Violation('tdict:constructor_accepted_invalid_value', bad)
  raised = None
  before = pg.to_json(sut)
  try:
    if op == 'set_a':
      sut['a'] = v
    elif op == 'set_b':
      sut.b = v
    elif op == 'set_dyn':
      sut['x2'] = v
    elif op == 'set_bad_key':
      sut['zz'] = v
    elif op == 'set_none':
      sut['a'] = None
    elif op == 'set_str':
      sut['a'] = 's'
    elif op == 'del_a':
      del sut['a']
    elif op == 'del_dyn':
      del sut['x1']
    elif op == 'pop_a':
      sut.pop('a')
    elif op == 'popitem':
      sut.popitem()
    elif op == 'clear':
      sut.clear()
    elif op == 'update':
      sut.update({'a': v, 'x3': w})
    elif op == 'ior':
      sut |= {'a': v, 'x3': w}
    elif op == 'setdefault_new':
      sut.setdefault('x4', v)
    elif op == 'rebind_a':
      sut.rebind(a=v, b=w)
    elif op == 'rebind_missing_a':
      sut.rebind(a=pg.MISSING_VALUE)
    elif op == 'set_missing_a':
      sut['a'] = pg.MISSING_VALUE
    else:
      raise AssertionError(op)
  except _REJ as e:
    raised = e
  reach('dict.rejected' if raised else 'dict.accepted')
  if not isinstance(sut, pg.Dict):
    return Violation(f'tdict:{op}:not_pg_dict', repr(type(sut)))
  bad = _dict_ok(sut, lo, hi, dflt, partial)
  if bad:
    return Violation(f'tdict:{op}:violates_schema:{bad.split(" ")[0]}_{bad.split(" ")[-1]}' + (':after_error' if raised else ''),
                     f'{dict(sut)!r}: {bad}')
  if raised is not None and op not in ('update', 'ior', 'rebind_a') and pg.to_json(sut) != before:
    return Violation(f'tdict:{op}:rejected_write_changed_value', '')
  return None


# ---- family 2: object tree over the spec vocabulary -------------------------------------

class Sub(pg.Object):
  p: pgt.Int(min_value=0) = 0


class Rec3(pg.Object):
  x: pgt.Int(min_value=0, max_value=10) = 1
  name: pgt.Str() = 'n'
  tags: pgt.List(pgt.Int(min_value=0, max_value=5), min_size=1, max_size=3) = [1]
  opt: pgt.Int().noneable() = None
  fz: pgt.Int().freeze(7) = 7
  fzn: pgt.Int().noneable().freeze(7) = 7        # frozen although None would otherwise be acceptable
  e: pgt.Enum('a', ['a', 'b']) = 'a'
  sub: pgt.Object(Sub) = Sub()
  d: pgt.Dict([('k', pgt.Int(min_value=0)), (pgt.StrKey('y.*'), pgt.Int())]) = pg.Dict(k=0)
  u: pgt.Union([pgt.Int(min_value=0), pgt.Str()]) = 0
  t: pgt.Tuple([pgt.Int(), pgt.Int(min_value=0)]) = (0, 0)
  req: pgt.Int(max_value=100)


def t_rec(v, single=False):
  if single:
    return pg.Dict(r=Rec3(x=v[0], tags=[v[1]], req=v[2], d=dict(k=v[3])))
  return pg.Dict(r=Rec3(x=v[0], tags=[v[1]], req=v[2], d=dict(k=v[3])), lst=pg.List([Rec3(req=v[2])]))


def _rec_ok(r, partial=False):
  def is_int(z):
    return isinstance(z, int)          # bool is an int for pg.typing.Int, as in Python
  g = r.sym_getattr
  keys = list(r.sym_keys())
  declared = ['x', 'name', 'tags', 'opt', 'fz', 'fzn', 'e', 'sub', 'd', 'u', 't', 'req']
  if sorted(keys) != sorted(declared):
    return f'keys {keys}'
  if not (is_int(g('x')) and 0 <= g('x') <= 10):
    return 'x'
  if not isinstance(g('name'), str):
    return 'name'
  tags = g('tags')
  if not isinstance(tags, pg.List) or not 1 <= len(tags) <= 3 or any(not is_int(e) or not 0 <= e <= 5 for e in tags):
    return 'tags'
  if not (g('opt') is None or is_int(g('opt'))):
    return 'opt'
  if g('fz') != 7:
    return 'fz'
  if g('fzn') != 7:
    return 'fzn'
  if g('e') not in ('a', 'b'):
    return 'e'
  sub = g('sub')
  if not isinstance(sub, Sub) or not is_int(sub.sym_getattr('p')) or sub.sym_getattr('p') < 0:
    return 'sub'
  d = g('d')
  if not isinstance(d, pg.Dict) or 'k' not in d or not is_int(d.sym_getattr('k')) or d.sym_getattr('k') < 0:
    return 'd.k'
  for k in d.keys():
    if k != 'k' and not (isinstance(k, str) and k.startswith('y') and is_int(d.sym_getattr(k))):
      return 'd.dynamic'
  u = g('u')
  if not ((is_int(u) and u >= 0) or isinstance(u, str)):
    return 'u'
  t = g('t')
  if not (isinstance(t, tuple) and len(t) == 2 and is_int(t[0]) and is_int(t[1]) and t[1] >= 0):
    return 't'
  req = g('req')
  if pg.MISSING_VALUE == req:
    if not partial:
      return 'req_missing'
  elif not (is_int(req) and req <= 100):
    return 'req'
  return None


def _tree_ok(root):
  for n in T.nodes_of(root):
    if isinstance(n, Rec3):
      bad = _rec_ok(n, partial=n.allow_partial)
      if bad:
        return f'{bad} at {n.sym_path}'
      # a stored container is never the very object the class keeps as the field's default (shared by all instances)
      for key, field in Rec3.__schema__.items():
        dv = field.default_value
        if isinstance(dv, pg.Symbolic) and n.sym_hasattr(str(key)) and n.sym_getattr(str(key)) is dv:
          return f'class_default_object_stored:{key} at {n.sym_path}'
  return None


VALS = ['int', 'str', 'none', 'list', 'list_long', 'dict', 'dict_bad', 'sub', 'missing', 'tuple', 'bool', 'float', 'rec',
        'typed_list', 'typed_list_empty', 'typed_dict', 'partial_d', 'partial_rec']


GROUPS = dict(scalar=['int', 'str', 'none', 'bool', 'float', 'missing'], container=['list', 'list_long', 'dict', 'dict_bad', 'tuple'],
              object=['sub', 'rec', 'partial_rec'], typed=['typed_list', 'typed_list_empty', 'typed_dict', 'partial_d'])


def _mk(vk, w, group=None):
  names = GROUPS[group] if group else VALS
  kind = names[_conc(vk, 0, len(names) - 1)]
  if kind == 'int':
    return kind, w
  if kind == 'str':
    return kind, 'c'
  if kind == 'none':
    return kind, None
  if kind == 'list':
    return kind, [w]
  if kind == 'list_long':
    return kind, [1, 2, 3, w]
  if kind == 'dict':
    return kind, {'k': w}
  if kind == 'dict_bad':
    return kind, {'k': 1, 'q': w}
  if kind == 'sub':
    try:
      return kind, Sub(p=w)
    except _REJ:
      raise Assume()
  if kind == 'missing':
    return kind, pg.MISSING_VALUE
  if kind == 'tuple':
    return kind, (w, w)
  if kind == 'bool':
    return kind, w > 0
  if kind == 'float':
    return kind, w + 0.5
  if kind == 'rec':
    try:
      return kind, Rec3(req=w)
    except _REJ:
      raise Assume()
  # containers that already carry their own (looser) value spec
  if kind == 'typed_list':
    if w < 0:
      raise Assume()
    return kind, pg.List([w], value_spec=pgt.List(pgt.Int(min_value=0), min_size=1, max_size=3))   # only the element range is looser
  if kind == 'typed_list_empty':
    return kind, pg.List([], value_spec=pgt.List(pgt.Int(min_value=0, max_value=5), max_size=3))
  if kind == 'typed_dict':
    return kind, pg.Dict(k=w, value_spec=pgt.Dict([('k', pgt.Int()), (pgt.StrKey('y.*'), pgt.Int())]))   # k is looser
  if kind == 'partial_d':
    return kind, Rec3.partial(d={'y1': w}).d          # typed by the very same field spec, but partial
  if kind == 'partial_rec':
    return kind, Rec3.partial(x=1)
  raise AssertionError(kind)


def h_obj(params, v0, v1, v2, v3, t, i, vk, w, w2):
  op = params['op']
  try:
    root = t_rec((v0, v1, v2, v3), params.get('single', False))
  except _REJ:
    raise Assume()
  bad = _tree_ok(root)
  if bad:
    return Violation('obj:constructor_accepted_invalid_value', bad)
  nodes = T.nodes_of(root)
  kind, val = _mk(vk, w, params.get('group'))
  before = pg.to_json(root)
  raised = None
  try:
    with pg.allow_writable_accessors(True):
      T.apply_op(op, root, nodes, t, i, val, w2)
    reach('obj.applied')
  except _REJ + (AttributeError,) as e:
    raised = e
    reach('obj.raised')
  bad = _tree_ok(root)
  if bad:
    if kind == 'typed_list_empty' and bad.split(' ')[0] == 'tags' and not raised:
      return Violation('obj:pretyped_list_shorter_than_min_size_accepted', f'{op} wrote {kind}: {bad}')
    return Violation(f'obj:{op}:violates_schema:{bad.split(" ")[0]}' + (':after_error' if raised else ''),
                     f'wrote {kind}: {bad}')
  if raised is not None and op not in ('extend', 'set_slice', 'rebind_multi', 'rebind_deep2', 'update') and pg.to_json(root) != before:
    return Violation(f'obj:{op}:rejected_write_changed_value', f'wrote {kind}')
  return None


W_VALUES = [-1, 3, 7, 101]       # below every minimum / valid everywhere / above the tags element range / above every maximum
USES_W = {'int', 'list', 'list_long', 'dict', 'dict_bad', 'sub', 'tuple', 'bool', 'float', 'rec', 'typed_list', 'typed_dict', 'partial_d'}


def h_obj_n(params, v0, v1, v2, v3, t, i, vk, w, w2):
  """h_obj with every selector a solver decision made concrete by branching (target node first, then - for applicable
  (operation, node) pairs only - the key/index, the written value kind and a boundary value); the write and the schema
  predicate then run natively."""
  from engine.chx import concretize, untraced
  op, single = params['op'], params.get('single', False)
  with untraced():
    nodes0 = T.nodes_of(t_rec((1, 1, 1, 1), single))
  t = concretize(t, range(len(nodes0)))
  if not T.applicable(op, nodes0[t], t):
    raise Assume()
  n = T.fanout(nodes0[t])
  i = concretize(i, range(-n - 1, n + 2))
  names = GROUPS[params['group']]
  vk = concretize(vk, range(len(names)))
  w = concretize(w, W_VALUES) if names[vk] in USES_W else 3
  with untraced():
    return h_obj(params, 1, 1, 1, 1, t, i, vk, w, 60)


_LA = [('lo', 'optint'), ('hi', 'optint'), ('mn', 'optint'), ('mx', 'optint'), ('x0', 'int'), ('x1', 'int'), ('x2', 'int'),
       ('n', 'int'), ('i', 'int'), ('v', 'int'), ('w', 'int'), ('m', 'int')]
_DA = [('lo', 'optint'), ('hi', 'optint'), ('dflt', 'int'), ('a0', 'int'), ('b0', 'int'), ('has_b', 'bool'), ('has_x', 'bool'),
       ('x0', 'int'), ('v', 'int'), ('w', 'int'), ('partial', 'bool')]
_OA = [('v0', 'int'), ('v1', 'int'), ('v2', 'int'), ('v3', 'int'), ('t', 'int'), ('i', 'int'), ('vk', 'int'), ('w', 'int'),
       ('w2', 'int')]
OBJ_OPS = ['setitem', 'setattr', 'delitem', 'delattr', 'append', 'insert', 'extend', 'pop', 'remove', 'clear', 'set_slice',
           'del_slice', 'del_slice_neg', 'iadd', 'rebind_idx', 'rebind_insert', 'rebind_missing', 'rebind_key', 'rebind_kwargs',
           'rebind_deep', 'rebind_deep2', 'update', 'setdefault', 'ior', 'popitem', 'rebind_fn']


def shards(tier, seed):
  quick = tier == 'quick'
  b = 30 if quick else 400
  out = []
  for op in TLIST_OPS:
    out.append(dict(name=f'tlist:{op}', fn='h_tlist', params=dict(op=op), args=_LA, budget_s=b, per_path_s=15))
  for op in TDICT_OPS:
    out.append(dict(name=f'tdict:{op}', fn='h_tdict', params=dict(op=op), args=_DA, budget_s=b, per_path_s=15))
  for op in OBJ_OPS:
    for group in GROUPS:
      out.append(dict(name=f'objn:{op}:{group}', fn='h_obj_n', params=dict(op=op, group=group, single=quick and op != 'rebind_deep2'),
                      args=_OA, budget_s=90 if quick else 400, per_path_s=15, allow_vacuous=True,
                      expect_s=60 if op in ('setattr', 'rebind_key', 'rebind_kwargs', 'rebind_deep', 'rebind_deep2', 'update') else 15))
      if not quick:      # leaf ints unbounded and traced (the typed list / typed dict shards do this in both tiers)
        out.append(dict(name=f'obj:{op}:{group}', fn='h_obj', params=dict(op=op, group=group, single=False), args=_OA,
                        budget_s=400, per_path_s=15))
  return out


META = dict(
    rule='Shard = (typed list | typed dict | object tree, operation); symbolic: spec ranges and size bounds (typed '
         'containers), initial contents, written value and its kind, index/key, target node.',
    bounds=['typed list: element Int(lo,hi), min/max size all unbounded Optional[int]; initial length <= 3',
            'typed dict: required Int(lo,hi) key, noneable defaulted key, regex-constrained dynamic keys; partial bit',
            'object tree: class Rec3 covering Int/Str/List/noneable/frozen/Enum/Object/Dict(const+dynamic)/Union/Tuple/'
            'required fields, one instance under a Dict and one under a List', 'written value kinds: ' + ', '.join(VALS),
            'one call per path from every constructor-built state (inductive step)'],
    stubs=['CrossHair format() of symbolic non-str values returns "<sym>"'],
    outside_claim=['user transform callables, Callable/Type specs', 'type-check-off scope', 'schemas outside the listed classes',
                   'for batch operations (extend, slice assignment, multi-path rebind, update) only the schema invariant '
                   'is asserted after a rejected call, not that nothing was applied'],
    assumptions=['reference predicates are hand-written from the declared schema'],
)
