"""C04 — value-spec algebra: idempotent apply (L1), compatibility containment (L2),
extension narrowing (L3). Specs are built by the real constructors from a concrete
skeleton with symbolic numeric parameters / flags; candidate values are symbolic too.
`accepts` is the real `apply` wrapped in try.
"""
import pyglove as pg
from pyglove.core import typing as pgt
from engine.chx import Assume, Violation, reach

PROPERTY = 'C04'
LEVEL = 'model_checking'
REACH_POINTS = ['L1.accepted', 'L1.default', 'L2.compatible_and_accepted', 'L3.extended',
                'L3.extended_accepts']


class A(pg.Object):
  x: int = 0


class A1(A):
  y: int = 1


class Bc(pg.Object):
  z: int = 0


STRS = ['', 'a', 'ab']
ENUM_UNIVERSE = [0, 1, 'a', None]

SHAPES = ['bool', 'int', 'float', 'str', 'enum', 'list_int', 'list_list', 'tuple_fixed', 'tuple_var',
          'dict_const', 'dict_dyn', 'dict_mixed', 'dict_free', 'object', 'union_is', 'union_if', 'union_li', 'any']

KINDS = {
    'bool': ['none', 'bool', 'int'],
    'int': ['none', 'int', 'bool', 'float'],
    'float': ['none', 'int', 'float'],
    'str': ['none', 'str', 'int'],
    'enum': ['none', 'int', 'str'],
    'list_int': ['none', 'list', 'tuple', 'int'],
    'list_list': ['none', 'listlist', 'list'],
    'tuple_fixed': ['none', 'tuple', 'list'],
    'tuple_var': ['none', 'tuple', 'list'],
    'dict_const': ['none', 'dict', 'int'],
    'dict_dyn': ['none', 'dict', 'int'],
    'dict_mixed': ['none', 'dict', 'int'],
    'dict_free': ['none', 'dict', 'int'],
    'object': ['none', 'obj', 'int'],
    'union_is': ['none', 'int', 'str', 'float'],
    'union_if': ['none', 'int', 'float', 'str'],
    'union_li': ['none', 'int', 'list', 'str'],
    'any': ['none', 'int', 'str', 'list', 'dict', 'obj', 'float', 'tuple'],
}


def _int_spec(lo, hi, flags, d, cls=None):
  cls = cls or pgt.Int
  kw = dict(min_value=lo, max_value=hi)
  if flags[1]:
    kw['default'] = d
  s = cls(**kw)
  return s


def _finish(s, flags):
  """Apply noneable / frozen modifiers (flags: noneable, has_default, frozen)."""
  if flags[0]:
    s = s.noneable()
  if flags[2]:
    if not flags[1]:
      raise Assume()
    s = s.freeze()
  return s


def _small(n, lo=0, hi=3):
  """Sizes that the constructors use to build structure are bounded (realized)."""
  if n is None:
    return None
  if not lo <= n <= hi:
    raise Assume()
  return n


def build_spec(shape, p, flags, d):
  """p: 4 Optional[int] parameters; flags: (noneable, has_default, frozen); d: int."""
  try:
    if shape == 'bool':
      s = pgt.Bool(default=(d > 0)) if flags[1] else pgt.Bool()
    elif shape == 'int':
      s = _int_spec(p[0], p[1], flags, d)
    elif shape == 'float':
      s = _int_spec(p[0], p[1], flags, d, pgt.Float)
    elif shape == 'str':
      if flags[1]:
        if not 0 <= d < len(STRS):
          raise Assume()
        s = pgt.Str(default=STRS[d])
      else:
        s = pgt.Str()
    elif shape == 'enum':
      # membership bits over the universe come from p[0..3] (None = absent).
      values = [u for u, bit in zip(ENUM_UNIVERSE, p) if bit is not None]
      if not values:
        raise Assume()
      if flags[1]:
        if not 0 <= d < len(values):
          raise Assume()
        s = pgt.Enum(values[d], values)
      else:
        s = pgt.Enum(pgt.MISSING_VALUE, values)
    elif shape == 'list_int':
      kw = {}
      if flags[1]:
        kw['default'] = [d]
      s = pgt.List(pgt.Int(min_value=p[0], max_value=p[1]), min_size=p[2], max_size=p[3], **kw)
    elif shape == 'list_list':
      s = pgt.List(pgt.List(pgt.Int(min_value=p[0]), max_size=p[1]), min_size=p[2], max_size=p[3])
    elif shape == 'tuple_fixed':
      kw = {}
      if flags[1]:
        kw['default'] = (d, d)
      s = pgt.Tuple([pgt.Int(min_value=p[0], max_value=p[1]), pgt.Int(min_value=p[2], max_value=p[3])], **kw)
    elif shape == 'tuple_var':
      s = pgt.Tuple(pgt.Int(min_value=p[0], max_value=p[1]),
                    min_size=_small(p[2]), max_size=_small(p[3]))
    elif shape == 'dict_const':
      fields = [('a', pgt.Int(min_value=p[0], max_value=p[1]))]
      if p[2] is not None:
        fields.append(('b', pgt.Int(default=p[2], max_value=p[3])))
      s = pgt.Dict(fields)
    elif shape == 'dict_dyn':
      s = pgt.Dict([(pgt.StrKey(), pgt.Int(min_value=p[0], max_value=p[1]))])
    elif shape == 'dict_mixed':
      # a declared key next to a dynamic key; p[2] = None: the declared field is a string, else an int range
      fa = pgt.Str() if p[2] is None else pgt.Int(min_value=p[2], max_value=p[3])
      s = pgt.Dict([('a', fa), (pgt.StrKey(), pgt.Int(min_value=p[0], max_value=p[1]))])
    elif shape == 'dict_free':
      s = pgt.Dict()
    elif shape == 'object':
      c = p[0]
      if c is None:
        s = pgt.Object(A)
      elif c == 0:
        s = pgt.Object(A1)
      elif c == 1:
        s = pgt.Object(Bc)
      else:
        raise Assume()
    elif shape == 'union_is':
      s = pgt.Union([pgt.Int(min_value=p[0], max_value=p[1]), pgt.Str()])
    elif shape == 'union_if':
      s = pgt.Union([pgt.Int(min_value=p[0], max_value=p[1]), pgt.Float(min_value=p[2], max_value=p[3])])
    elif shape == 'union_li':
      s = pgt.Union([pgt.List(pgt.Int(min_value=p[0]), max_size=p[1]), pgt.Int(min_value=p[2], max_value=p[3])])
    elif shape == 'any':
      s = pgt.Any(default=d) if flags[1] else pgt.Any()
    else:
      raise AssertionError(shape)
    return _finish(s, flags)
  except (ValueError, TypeError):
    raise Assume()      # the constructor's own validity precondition


def mk_value(kind, v, n):
  """Fresh candidate value; v = 3 symbolic ints, n = symbolic length/selector."""
  if kind == 'none':
    return None
  if kind == 'int':
    return v[0]
  if kind == 'bool':
    return v[0] > 0
  if kind == 'float':
    return v[0] + 0.5
  if kind == 'str':
    if not 0 <= n < len(STRS):
      raise Assume()
    return STRS[n]
  if kind in ('list', 'tuple'):
    if n == 0:
      xs = []
    elif n == 1:
      xs = [v[0]]
    elif n == 2:
      xs = [v[0], v[1]]
    elif n == 3:
      xs = [v[0], v[1], v[2]]
    else:
      raise Assume()
    return xs if kind == 'list' else tuple(xs)
  if kind == 'listlist':
    if n == 0:
      return []
    if n == 1:
      return [[v[0]]]
    if n == 2:
      return [[v[0], v[1]], []]
    if n == 3:
      return [[v[0]], [v[1]], [v[2]]]
    raise Assume()
  if kind == 'dict':
    if n == 0:
      return {}
    if n == 1:
      return {'a': v[0]}
    if n == 2:
      return {'a': v[0], 'b': v[1]}
    if n == 3:
      return {'b': v[1]}
    if n == 4:
      return {'a': v[0], 'c': v[2]}
    if n == 5:
      return {'a': 'ab'}
    if n == 6:
      return {'a': 'ab', 'c': v[2]}
    raise Assume()
  if kind == 'obj':
    if n == 0:
      return A(x=v[0])
    if n == 1:
      return A1(x=v[0], y=v[1])
    if n == 2:
      return Bc(z=v[0])
    raise Assume()
  raise AssertionError(kind)


_REJECT = (TypeError, ValueError, KeyError)


def restrict(params, who, p, flags):
  """Shard-level cut: which spec parameters are symbolic (the others are fixed off/None)."""
  sym = params.get('sym_' + who, 'ndf')
  if 'n' not in sym and flags[0]:
    raise Assume()
  if 'd' not in sym and flags[1]:
    raise Assume()
  if 'f' not in sym and flags[2]:
    raise Assume()
  mask = params.get('pmask_' + who, '1111')
  for i in range(4):
    if mask[i] == '0' and p[i] is not None:
      raise Assume()


def accepts_default(spec, dv):
  """Defaults are applied with allow_partial=True by the library itself (set_default)."""
  import copy
  if isinstance(dv, (list, dict)):
    dv = copy.deepcopy(dv)
  try:
    spec.apply(dv, allow_partial=True)
    return True
  except _REJECT:
    return False


def _why(spec, value):
  """Structural classification of why `spec` rejects `value` (keeps signatures specific)."""
  if spec.frozen:
    return 'target_frozen'
  if value is None:
    return 'none'
  if isinstance(spec, pgt.List) and isinstance(value, list):
    if len(value) < spec.min_size:
      return 'list_min_size'
    if spec.max_size is not None and len(value) > spec.max_size:
      return 'list_max_size'
    return 'list_element'
  if isinstance(spec, pgt.Tuple) and isinstance(value, tuple):
    if len(value) < spec.min_size:
      return 'tuple_min_size'
    if spec.max_size is not None and len(value) > spec.max_size:
      return 'tuple_max_size'
    return 'tuple_element'
  if isinstance(spec, pgt.Number) and isinstance(value, (int, float)) and not isinstance(value, bool):
    if spec.min_value is not None and value < spec.min_value:
      return 'below_min'
    if spec.max_value is not None and value > spec.max_value:
      return 'above_max'
  return 'value'


def accepts(spec, value):
  try:
    spec.apply(value)
    return True
  except _REJECT:
    return False


def _pick_kind(kinds, vk):
  if not 0 <= vk < len(kinds):
    raise Assume()
  return kinds[vk]


def _cut_n(params, n):
  if n > params.get('nmax', 9):
    raise Assume()


def h_apply(params, p0, p1, p2, p3, f0, f1, f2, d, vk, v0, v1, v2, n):
  """L1: apply is idempotent on accepted values, default accepted, spec unchanged."""
  shape = params['A']
  p, flags, v = (p0, p1, p2, p3), (f0, f1, f2), (v0, v1, v2)
  restrict(params, 'A', p, flags)
  s = build_spec(shape, p, flags, d)
  if s.default is not pgt.MISSING_VALUE and s.default != pgt.MISSING_VALUE:
    reach('L1.default')
    if not accepts_default(s, s.default):
      return Violation(f'L1:default_rejected:{shape}', f'spec={s!r}')
  kind = _pick_kind(params['kinds'], vk)
  _cut_n(params, n)
  try:
    r = s.apply(mk_value(kind, v, n))
  except _REJECT:
    return None
  reach('L1.accepted')
  try:
    r2 = s.apply(r)
  except _REJECT as e:
    return Violation(f'L1:applied_value_rejected:{shape}:{kind}', f'spec={s!r} r={r!r} err={e!r}')
  if not pg.eq(r2, r):
    return Violation(f'L1:not_idempotent:{shape}:{kind}', f'spec={s!r} r={r!r} r2={r2!r}')
  s0 = build_spec(shape, p, flags, d)
  if not (s == s0):
    return Violation(f'L1:spec_changed_by_apply:{shape}:{kind}', f'{s!r} vs {s0!r}')
  return None


def h_compat(params, a0, a1, a2, a3, af0, af1, af2, ad, b0, b1, b2, b3, bf0, bf1, bf2, bd, vk, v0, v1, v2, n):
  """L2: A.is_compatible(B) and B accepts v  =>  A accepts v."""
  restrict(params, 'A', (a0, a1, a2, a3), (af0, af1, af2))
  restrict(params, 'B', (b0, b1, b2, b3), (bf0, bf1, bf2))
  sa = build_spec(params['A'], (a0, a1, a2, a3), (af0, af1, af2), ad)
  sb = build_spec(params['B'], (b0, b1, b2, b3), (bf0, bf1, bf2), bd)
  if not sa.is_compatible(sb):
    return None
  kind = _pick_kind(params['kinds'], vk)
  _cut_n(params, n)
  v = (v0, v1, v2)
  if not accepts(sb, mk_value(kind, v, n)):
    return None
  reach('L2.compatible_and_accepted')
  if not accepts(sa, mk_value(kind, v, n)):
    why = _why(sa, mk_value(kind, v, n))
    if why == 'list_min_size':
      return Violation('L2:list_min_size_ignored_by_is_compatible', f'A={sa!r} B={sb!r} v={mk_value(kind, v, n)!r}')
    if why == 'target_frozen':
      return Violation('L2:frozen_target_declares_compatible', f'A={sa!r} B={sb!r} v={mk_value(kind, v, n)!r}')
    return Violation(f'L2:compatible_but_rejects:{params["A"]}<-{params["B"]}:{kind}:{why}',
                     f'A={sa!r} B={sb!r} v={mk_value(kind, v, n)!r}')
  return None


def h_extend(params, a0, a1, a2, a3, af0, af1, af2, ad, b0, b1, b2, b3, bf0, bf1, bf2, bd, vk, v0, v1, v2, n):
  """L3: A' = A.extend(B) succeeded => (A' accepts v => B accepts v), B compatible with A',
  and A' accepts its own default."""
  restrict(params, 'A', (a0, a1, a2, a3), (af0, af1, af2))
  restrict(params, 'B', (b0, b1, b2, b3), (bf0, bf1, bf2))
  sa = build_spec(params['A'], (a0, a1, a2, a3), (af0, af1, af2), ad)
  sb = build_spec(params['B'], (b0, b1, b2, b3), (bf0, bf1, bf2), bd)
  try:
    sx = sa.extend(sb)
  except (TypeError, ValueError):
    return None      # extension refused
  reach('L3.extended')
  tag = f'{params["A"]}->{params["B"]}'
  shared_only = False
  if isinstance(sx, pgt.Dict) and isinstance(sb, pgt.Dict) and sx.schema is not None and sb.schema is not None:
    # "for the fields they share": a Dict that adds fields is (correctly) not contained in its base.
    shared_only = [str(k) for k in sx.schema.keys()] != [str(k) for k in sb.schema.keys()]
  if shared_only:
    return None
  if not sb.is_compatible(sx):
    return Violation(f'L3:base_not_compatible_with_extended:{tag}', f'A\'={sx!r} B={sb!r}')
  if sx.default != pgt.MISSING_VALUE:
    if not accepts_default(sx, sx.default):
      return Violation(f'L3:extended_rejects_own_default:{tag}', f'A\'={sx!r}')
  kind = _pick_kind(params['kinds'], vk)
  _cut_n(params, n)
  v = (v0, v1, v2)
  if not accepts(sx, mk_value(kind, v, n)):
    return None
  reach('L3.extended_accepts')
  if not accepts(sb, mk_value(kind, v, n)):
    return Violation(f'L3:extended_accepts_more_than_base:{tag}:{kind}',
                     f'A\'={sx!r} B={sb!r} v={mk_value(kind, v, n)!r}')
  return None


_SPEC_ARGS = lambda pre: [(f'{pre}0', 'optint'), (f'{pre}1', 'optint'), (f'{pre}2', 'optint'),
                          (f'{pre}3', 'optint'), (f'{pre}f0', 'bool'), (f'{pre}f1', 'bool'),
                          (f'{pre}f2', 'bool'), (f'{pre}d', 'int')]
_VAL_ARGS = [('vk', 'int'), ('v0', 'int'), ('v1', 'int'), ('v2', 'int'), ('n', 'int')]

# cross-class pairs whose compatibility / extension logic is non-trivial
CROSS = [('any', 'int'), ('any', 'list_int'), ('union_is', 'int'), ('union_is', 'str'), ('union_if', 'int'),
         ('union_if', 'float'), ('union_is', 'union_if'), ('union_if', 'union_is'), ('int', 'union_is'),
         ('int', 'union_if'), ('float', 'int'), ('int', 'float'), ('enum', 'int'), ('enum', 'str'),
         ('enum', 'bool'), ('int', 'enum'), ('tuple_var', 'tuple_fixed'), ('tuple_fixed', 'tuple_var'),
         ('dict_dyn', 'dict_const'), ('dict_const', 'dict_dyn'), ('dict_free', 'dict_const'),
         ('dict_const', 'dict_free'), ('list_int', 'list_list'), ('union_li', 'list_int'),
         ('list_int', 'union_li'), ('int', 'any'), ('bool', 'int'), ('int', 'bool'), ('str', 'any'),
         ('union_li', 'int'), ('union_li', 'union_if'), ('object', 'any'), ('dict_dyn', 'dict_free'),
         ('dict_dyn', 'dict_mixed'), ('dict_mixed', 'dict_dyn'), ('dict_mixed', 'dict_const'), ('dict_const', 'dict_mixed')]


# Quick-tier table: (lemma, A, B, kinds, flags, pmaskA, pmaskB, nmax). Each row is cut so that its path
# tree closes in well under a minute: either the size/range parameters of the *outer* structure are
# symbolic and elements unconstrained, or element ranges are symbolic and the container has <= 1 element.
R, S, RS = '1100', '0011', '1111'
QUICK = [
    # scalar range logic (unbounded ints), noneable symbolic
    ('L2', 'int', 'int', ['int'], 'n', R, R, 0), ('L2', 'int', 'int', ['none', 'bool'], 'n', R, R, 0),
    ('L2', 'float', 'float', ['int'], 'n', R, R, 0), ('L2', 'float', 'int', ['int'], 'n', R, R, 0),
    ('L3', 'int', 'int', ['int'], 'n', R, R, 0), ('L3', 'float', 'float', ['int'], 'n', R, R, 0),
    # base-class flag logic (noneable/default/frozen), ranges off
    ('L2', 'int', 'int', ['int', 'none'], 'ndf', '0000', '0000', 0),
    ('L3', 'int', 'int', ['int', 'none'], 'ndf', '0000', '0000', 0),
    ('L2', 'str', 'str', ['str', 'none'], 'ndf', '0000', '0000', 9),
    ('L2', 'enum', 'int', ['int'], 'ndf', RS, '0000', 0), ('L2', 'enum', 'enum', ['int', 'str', 'none'], '', RS, RS, 9),
    ('L3', 'enum', 'enum', ['int', 'str', 'none'], '', RS, RS, 9), ('L3', 'enum', 'int', ['int', 'none'], 'n', RS, R, 0),
    # default + range interaction on extension
    ('L3', 'int', 'int', ['int'], 'd', R, R, 0),
    # containers: sizes symbolic / elements free, then element ranges symbolic / one element
    ('L2', 'list_int', 'list_int', ['list'], 'n', S, S, 3), ('L2', 'list_int', 'list_int', ['list'], '', R, R, 1),
    ('L3', 'list_int', 'list_int', ['list'], 'n', S, S, 3), ('L3', 'list_int', 'list_int', ['list'], '', R, R, 1),
    ('L2', 'list_list', 'list_list', ['listlist'], '', '0111', '0111', 2),
    ('L2', 'tuple_var', 'tuple_var', ['tuple'], 'n', S, S, 3), ('L2', 'tuple_var', 'tuple_var', ['tuple'], '', R, R, 1),
    ('L3', 'tuple_var', 'tuple_var', ['tuple'], '', S, S, 3),
    ('L2', 'tuple_fixed', 'tuple_fixed', ['tuple'], 'n', R, R, 2), ('L2', 'tuple_fixed', 'tuple_fixed', ['tuple'], '', S, S, 2),
    ('L3', 'tuple_fixed', 'tuple_fixed', ['tuple'], '', R, R, 2),
    ('L2', 'tuple_var', 'tuple_fixed', ['tuple'], '', S, R, 2), ('L2', 'tuple_fixed', 'tuple_var', ['tuple'], '', R, S, 2),
    ('L3', 'tuple_fixed', 'tuple_var', ['tuple'], '', R, S, 2), ('L3', 'tuple_var', 'tuple_fixed', ['tuple'], '', S, R, 2),
    ('L2', 'dict_const', 'dict_const', ['dict'], 'n', R, R, 4), ('L2', 'dict_const', 'dict_const', ['dict'], '', S, S, 4),
    ('L3', 'dict_const', 'dict_const', ['dict'], '', R, R, 4), ('L3', 'dict_const', 'dict_const', ['dict'], '', S, S, 4),
    ('L2', 'dict_dyn', 'dict_const', ['dict'], '', R, R, 4), ('L2', 'dict_const', 'dict_dyn', ['dict'], '', R, R, 4),
    ('L2', 'dict_dyn', 'dict_dyn', ['dict'], 'n', R, R, 4), ('L2', 'dict_free', 'dict_const', ['dict'], 'n', '0000', R, 4),
    ('L2', 'dict_const', 'dict_free', ['dict'], 'n', R, '0000', 4),
    ('L2', 'dict_dyn', 'dict_mixed', ['dict'], '', R, RS, 6), ('L2', 'dict_mixed', 'dict_dyn', ['dict'], '', RS, R, 6),
    ('L2', 'dict_mixed', 'dict_mixed', ['dict'], '', S, S, 6), ('L2', 'dict_mixed', 'dict_mixed', ['dict'], '', R, R, 6),
    ('L2', 'dict_const', 'dict_mixed', ['dict'], '', R, S, 6), ('L2', 'dict_mixed', 'dict_const', ['dict'], '', S, R, 6),
    ('L2', 'dict_free', 'dict_mixed', ['dict'], '', '0000', S, 6),
    ('L3', 'dict_mixed', 'dict_mixed', ['dict'], '', S, S, 6), ('L3', 'dict_mixed', 'dict_dyn', ['dict'], '', S, R, 6),
    ('L2', 'object', 'object', ['obj', 'none'], 'n', '1000', '1000', 2), ('L3', 'object', 'object', ['obj'], 'n', '1000', '1000', 2),
    # unions / any
    ('L2', 'union_is', 'int', ['int'], 'n', R, R, 0), ('L2', 'union_is', 'str', ['str'], 'n', R, '0000', 9),
    ('L2', 'union_is', 'union_is', ['int', 'str'], 'n', R, R, 9), ('L2', 'union_if', 'union_is', ['int'], '', R, R, 0),
    ('L2', 'union_is', 'union_if', ['int'], '', R, R, 0), ('L2', 'union_if', 'float', ['int'], '', RS, R, 0),
    ('L2', 'union_if', 'int', ['int'], '', R, R, 0), ('L2', 'union_li', 'list_int', ['list'], '', R, '1001', 1),
    ('L3', 'union_is', 'union_is', ['int'], '', R, R, 0), ('L3', 'int', 'union_is', ['int'], 'n', R, R, 0),
    ('L3', 'union_if', 'union_if', ['int'], '', R, R, 0),
    ('L2', 'any', 'int', ['int'], 'ndf', '0000', R, 0), ('L2', 'int', 'any', ['int'], 'n', R, '0000', 0),
    ('L3', 'int', 'any', ['int'], 'n', R, '0000', 0), ('L2', 'bool', 'bool', ['bool', 'none'], 'ndf', '0000', '0000', 0),
]
L1_QUICK = [('int', ['int', 'none', 'bool'], 'ndf', R), ('float', ['int', 'float'], 'n', R), ('str', ['str', 'int'], 'ndf', '0000'),
            ('enum', ['int', 'str', 'none'], 'd', RS), ('list_int', ['list'], 'n', S), ('list_int', ['list', 'tuple'], 'd', R),
            ('list_list', ['listlist'], '', '0111'), ('tuple_fixed', ['tuple', 'list'], 'n', R), ('tuple_var', ['tuple'], 'n', S),
            ('dict_const', ['dict'], 'n', RS), ('dict_dyn', ['dict'], 'n', R), ('dict_mixed', ['dict'], 'n', RS), ('dict_free', ['dict'], 'ndf', '0000'),
            ('object', ['obj', 'none'], 'n', '1000'), ('union_is', ['int', 'str', 'none'], 'n', R),
            ('union_if', ['int', 'float'], '', RS), ('union_li', ['list', 'int'], '', RS), ('any', ['int', 'list', 'obj'], 'ndf', '0000'),
            ('bool', ['bool', 'int', 'none'], 'ndf', '0000')]


def _shard(lemma, a, b, kinds, flags, ma, mb, nmax, budget):
  fn = dict(L1='h_apply', L2='h_compat', L3='h_extend')[lemma]
  params = dict(A=a, kinds=kinds, sym_A=flags, pmask_A=ma, nmax=nmax)
  name = f'{lemma}:{a}'
  args = _SPEC_ARGS('a')
  if b is not None:
    params.update(B=b, sym_B=flags, pmask_B=mb)
    name += ('<-' if lemma == 'L2' else '->') + b
    args = args + _SPEC_ARGS('b')
  name += ':' + '+'.join(kinds) + f':{flags or "-"}:{ma}/{mb}:n{nmax}'
  return dict(name=name, fn=fn, params=params, args=args + _VAL_ARGS, budget_s=budget, per_path_s=20)


def shards(tier, seed):
  out = []
  if tier == 'quick':
    for shape, kinds, flags, mask in L1_QUICK:
      out.append(_shard('L1', shape, None, kinds, flags, mask, None, 3, 40))
    for lemma, a, b, kinds, flags, ma, mb, nmax in QUICK:
      out.append(_shard(lemma, a, b, kinds, flags, ma, mb, nmax, 40))
    return out
  # thorough: the quick rows with a 10x budget, plus every ordered pair of skeletons with all parameters
  # and flags symbolic, one shard per value kind.
  for shape, kinds, flags, mask in L1_QUICK:
    out.append(_shard('L1', shape, None, kinds, flags, mask, None, 3, 600))
    for k in KINDS[shape]:
      out.append(_shard('L1', shape, None, [k], 'ndf', RS, None, 3, 600))
  for lemma, a, b, kinds, flags, ma, mb, nmax in QUICK:
    out.append(_shard(lemma, a, b, kinds, flags, ma, mb, nmax, 600))
  for a in SHAPES:
    for b in SHAPES:
      heavy = (a == b) or (a, b) in CROSS
      for k in (KINDS[b] if heavy else KINDS[b][:2]):
        out.append(_shard('L2', a, b, [k], 'ndf', RS, RS, 3, 600 if heavy else 120))
      for k in (KINDS[a] if heavy else KINDS[a][:2]):
        out.append(_shard('L3', a, b, [k], 'ndf', RS, RS, 3, 600 if heavy else 120))
  return out


META = dict(
    rule='Shard = (lemma, spec skeleton A[, skeleton B]); symbolic: 4 Optional[int] parameters, 3 flag bits and '
         'a default per spec, value kind index, 3 value ints, value length.',
    bounds=['spec skeletons: ' + ', '.join(SHAPES),
            'numeric ranges, list sizes, defaults and candidate ints: unbounded mathematical integers (only compared)',
            'tuple sizes 0..3 (constructor builds structure from them); candidate containers length <= 3',
            'strings from %r; enum universe %r' % (STRS, ENUM_UNIVERSE),
            'nesting depth <= 2'],
    stubs=['CrossHair format() of symbolic non-str values returns "<sym>" (error-message text only)'],
    outside_claim=['regex constraints (excluded by the property)', 'Callable/Functor/Type specs', 'forward references',
                   'user transform callables', 'floats other than n and n+0.5 for symbolic integer n'],
    assumptions=['constructor-rejected parameter combinations (ValueError/TypeError at construction) are '
                 'outside the precondition'],
)
