"""C06 — pg.eq / pg.ne / pg.hash / pg.lt / pg.gt obey their algebraic laws.

Shard = ordered pair (or triple) of value shapes; the leaf integers are symbolic, so the
solver covers every relative order and tie of the leaves.
"""
import functools

import pyglove as pg
from engine.chx import Assume, Violation, reach

PROPERTY = 'C06'
LEVEL = 'model_checking'
REACH_POINTS = ['pair', 'pair.eq', 'pair.lt', 'triple', 'sort']


class A(pg.Object):
  x: int = 0


class A1(A):
  pass


class A2(A):
  y: int = 0


class B(pg.Object):
  x: int = 0
  use_symbolic_comparison = False


class Cn(pg.Object):
  x: pg.typing.Any() = None


STRS = ['', 'a', 'ab', 'b']
BOUND = 2


def mk(shape, v):
  """v = (v0, v1): two symbolic ints in [-BOUND, BOUND]."""
  a, b = v
  if shape == 'int':
    return a
  if shape == 'bool':
    return a > 0
  if shape == 'float':
    return a + 0.5
  if shape == 'float_int':
    return float(a)
  if shape == 'str':
    if not 0 <= a < len(STRS):
      raise Assume()
    return STRS[a]
  if shape == 'none':
    return None
  if shape == 'missing':
    return pg.MISSING_VALUE
  if shape == 'list':
    return [a, b]
  if shape == 'list1':
    return [a]
  if shape == 'pglist':
    return pg.List([a, b])
  if shape == 'tuple':
    return (a, b)
  if shape == 'dict':
    return {'a': a, 'b': b}
  if shape == 'dict_rev':
    return {'b': b, 'a': a}
  if shape == 'dict1':
    return {'a': a}
  if shape == 'dict_int':
    return {0: a, 'a': b}
  if shape == 'pgdict':
    return pg.Dict(a=a, b=b)
  if shape == 'A':
    return A(x=a)
  if shape == 'A1':
    return A1(x=a)
  if shape == 'A2':
    return A2(x=a, y=b)
  if shape == 'B':
    return B(x=a)
  # containers holding an object whose class opted out of symbolic comparison (its == / hash() are identity based,
  # pg.eq / pg.hash are not)
  if shape == 'pglist_B':
    return pg.List([B(x=a), b])
  if shape == 'pgdict_B':
    return pg.Dict(k=B(x=a), j=b)
  if shape == 'cn_B':
    return Cn(x=B(x=a))
  if shape == 'nest_list':
    return [A(x=a), [b]]
  if shape == 'nest_dict':
    return {'k': [a], 'o': A2(x=a, y=b)}
  if shape == 'nest_obj':
    return Cn(x=[a, {'z': b}])
  if shape == 'nest_none':
    return Cn(x=None if a > 0 else b)
  raise AssertionError(shape)


SHAPES = ['int', 'bool', 'float', 'float_int', 'str', 'none', 'missing', 'list', 'list1', 'pglist', 'tuple', 'dict', 'dict_rev',
          'dict1', 'dict_int', 'pgdict', 'A', 'A1', 'A2', 'B', 'nest_list', 'nest_dict', 'nest_obj', 'nest_none']


EXTRA_SHAPES = ['pglist_B', 'pgdict_B', 'cn_B']      # paired with themselves and a few related shapes only


def _bounded(*vs):
  for v in vs:
    if not -BOUND <= v <= BOUND:
      raise Assume()


def _hash(x):
  """pg.hash of plain (non-symbolic) containers is Python's hash(): unhashable there, not a pyglove matter."""
  try:
    return pg.hash(x)
  except TypeError:
    if isinstance(x, pg.Symbolic):
      raise
    return None


def _lt(x, y, tag):
  try:
    return pg.lt(x, y), None
  except Exception as e:  # pylint: disable=broad-except
    return None, Violation(f'lt_raises:{tag}:{type(e).__name__}', f'pg.lt({x!r}, {y!r}) raised {e!r}')


def h_pair(params, a0, a1, b0, b1):
  sx, sy = params['x'], params['y']
  tag = f'{sx}|{sy}'
  _bounded(a0, a1, b0, b1)
  x, y = mk(sx, (a0, a1)), mk(sy, (b0, b1))
  reach('pair')
  # reflexivity (also through a structurally identical second instance)
  x2 = mk(sx, (a0, a1))
  if not pg.eq(x, x) or not pg.eq(x, x2):
    return Violation(f'eq_not_reflexive:{sx}', repr(x))
  if _hash(x) != _hash(x2):
    return Violation(f'hash_differs_for_equal_structure:{sx}', repr(x))
  e_xy, e_yx = pg.eq(x, y), pg.eq(y, x)
  if e_xy != e_yx:
    return Violation(f'eq_not_symmetric:{tag}', f'{x!r} {y!r}')
  if pg.ne(x, y) == e_xy:
    return Violation(f'ne_is_not_negation:{tag}', f'{x!r} {y!r}')
  if e_xy:
    reach('pair.eq')
    hx, hy = _hash(x), _hash(y)
    if hx is not None and hy is not None and hx != hy:
      return Violation(f'equal_but_hash_differs:{tag}', f'{x!r} {y!r}')
  for o, p in ((x, y), (y, x)):
    if isinstance(o, pg.Object) and o.use_symbolic_comparison:
      if (o == p) != pg.eq(o, p) or (o != p) != pg.ne(o, p):
        return Violation(f'operator_eq_disagrees:{tag}', f'{o!r} {p!r}')
      if hash(o) != pg.hash(o):
        return Violation(f'operator_hash_disagrees:{tag}', repr(o))
  lt_xy, viol = _lt(x, y, tag)
  if viol:
    return viol
  lt_yx, viol = _lt(y, x, tag)
  if viol:
    return viol
  reach('pair.lt')
  if pg.gt(x, y) != lt_yx or pg.gt(y, x) != lt_xy:
    return Violation(f'gt_is_not_swapped_lt:{tag}', f'{x!r} {y!r}')
  n = int(lt_xy) + int(e_xy) + int(lt_yx)
  if n != 1:
    return Violation(f'trichotomy:{tag}:lt={lt_xy},eq={e_xy},gt={lt_yx}', f'{x!r} {y!r}')
  lt_xx, viol = _lt(x, x2, f'{sx}|{sx}')
  if viol:
    return viol
  if lt_xx:
    return Violation(f'lt_not_irreflexive:{sx}', repr(x))
  return None


def h_triple(params, a0, a1, b0, b1, c0, c1):
  sx, sy, sz = params['x'], params['y'], params['z']
  tag = f'{sx}|{sy}|{sz}'
  _bounded(a0, a1, b0, b1, c0, c1)
  x, y, z = mk(sx, (a0, a1)), mk(sy, (b0, b1)), mk(sz, (c0, c1))
  reach('triple')
  try:
    if pg.eq(x, y) and pg.eq(y, z) and not pg.eq(x, z):
      return Violation(f'eq_not_transitive:{tag}', f'{x!r} {y!r} {z!r}')
    if pg.lt(x, y) and pg.lt(y, z) and not pg.lt(x, z):
      return Violation(f'lt_not_transitive:{tag}', f'{x!r} {y!r} {z!r}')
    if pg.eq(x, y) and pg.lt(y, z) and not pg.lt(x, z):
      return Violation(f'lt_not_compatible_with_eq:{tag}', f'{x!r} {y!r} {z!r}')
  except Exception as e:  # pylint: disable=broad-except
    return Violation(f'compare_raises:{tag}:{type(e).__name__}', f'{x!r} {y!r} {z!r} {e!r}')
  reach('sort')
  try:
    sorted([z, y, x], key=functools.cmp_to_key(lambda p, q: -1 if pg.lt(p, q) else (1 if pg.gt(p, q) else 0)))
  except Exception as e:  # pylint: disable=broad-except
    return Violation(f'sort_raises:{tag}:{type(e).__name__}', f'{x!r} {y!r} {z!r} {e!r}')
  return None


_P = [('a0', 'int'), ('a1', 'int'), ('b0', 'int'), ('b1', 'int')]
_T = _P + [('c0', 'int'), ('c1', 'int')]

QUICK_TRIPLES = [('int', 'float', 'bool'), ('list', 'pglist', 'list1'), ('dict', 'dict_rev', 'pgdict'), ('A', 'A1', 'A2'),
                 ('dict', 'dict1', 'dict_rev'), ('int', 'str', 'none'), ('tuple', 'tuple', 'tuple'), ('A', 'A', 'A'),
                 ('nest_list', 'nest_list', 'list'), ('missing', 'none', 'int'), ('float_int', 'int', 'bool'),
                 ('nest_obj', 'nest_obj', 'nest_obj'), ('dict_int', 'dict', 'dict_int'), ('nest_none', 'nest_none', 'nest_none')]


def shards(tier, seed):
  quick = tier == 'quick'
  out = []
  b = 30 if quick else 300
  for i, sx in enumerate(SHAPES):
    for sy in SHAPES[i:]:
      out.append(dict(name=f'pair:{sx}|{sy}', fn='h_pair', params=dict(x=sx, y=sy), args=_P, budget_s=b, per_path_s=10))
  for sx in EXTRA_SHAPES:
    for sy in (sx, 'pglist', 'pgdict', 'B', 'A'):
      out.append(dict(name=f'pair:{sx}|{sy}', fn='h_pair', params=dict(x=sx, y=sy), args=_P, budget_s=b, per_path_s=10))
  triples = list(QUICK_TRIPLES)
  if not quick:
    comparable = [['int', 'bool', 'float', 'float_int'], ['list', 'list1', 'pglist', 'nest_list'],
                  ['dict', 'dict_rev', 'dict1', 'pgdict', 'dict_int'], ['A', 'A1', 'A2', 'B'], ['none', 'missing', 'int', 'str']]
    for grp in comparable:
      for x in grp:
        for y in grp:
          for z in grp:
            if (x, y, z) not in triples:
              triples.append((x, y, z))
  for x, y, z in triples:
    out.append(dict(name=f'triple:{x}|{y}|{z}', fn='h_triple', params=dict(x=x, y=y, z=z), args=_T,
                    budget_s=b * 2, per_path_s=10))
  return out


META = dict(
    rule='Shard = ordered pair / triple of value shapes; symbolic: two leaf ints per value.',
    bounds=['shapes: ' + ', '.join(SHAPES + EXTRA_SHAPES), 'leaf ints in [-2,2] (hashing realizes them), strings from %r' % STRS,
            'floats n+0.5 and float(n) for symbolic int n', 'all unordered shape pairs; triples: listed core set (quick) / '
            'all triples inside each mutually comparable group (thorough)'],
    stubs=['CrossHair format() of symbolic non-str values returns "<sym>"'],
    outside_claim=['user-defined sym_eq / sym_lt overrides', 'nan/inf', 'strings outside the listed set',
                   'functions/classes as values'],
    assumptions=[],
)
