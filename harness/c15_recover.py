"""C15 — search algorithms recover their state from history at every crash point.

Skeleton = (algorithm configuration, search space, run length). Symbolic: the crash point k,
the number w of trailing proposals whose reward never arrived, the rewards (all orders and
ties over a small range), whether history is persisted through JSON. The algorithms run
natively (seeded concretely: the RNG stream is not part of persisted history); each symbolic
choice is a solver decision.
"""
import pickle

import pyglove as pg
from pyglove.core import geno
from pyglove.ext import evolution as ev
from pyglove.ext.evolution import base as ev_base
from engine.chx import Assume, Violation, reach, untraced

PROPERTY = 'C15'
LEVEL = 'model_checking'
REACH_POINTS = ['recovered', 'continued']


def _space(name):
  if name == 'small':
    return pg.Dict(a=pg.oneof([1, 2, 3]), b=pg.oneof(['x', 'y']))
  if name == 'multi':
    return pg.Dict(m=pg.manyof(2, [1, 2, 3, 4], distinct=True, sorted=True), c=pg.oneof([0, 1, 2]))
  if name == 'cond':
    return pg.Dict(a=pg.oneof([1, pg.oneof(['p', 'q']), 3]), z=pg.oneof([0, 1]))
  raise AssertionError(name)


def _algo(name):
  if name == 'sweeping':
    return geno.Sweeping()
  if name == 'random7':
    return geno.Random(seed=7)
  if name == 'random0':
    return geno.Random(seed=0)
  if name == 'dedup_sweeping':
    return geno.Deduping(geno.Sweeping())
  if name == 'dedup_random':
    return geno.Deduping(geno.Random(seed=3))
  if name == 'regularized_evolution':
    return ev.regularized_evolution(population_size=3, tournament_size=2, seed=1)
  if name == 'hill_climb':
    return ev.hill_climb(batch_size=2, init_population_size=2, seed=1)
  if name == 'nsga2':
    return ev.nsga2(mutator=ev.mutators.Uniform(seed=1), population_size=3, seed=1)
  if name == 'neat':
    return ev.neat(mutator=ev.mutators.Uniform(seed=1), population_size=3, seed=1)
  if name == 'dedup_evolution':
    return geno.Deduping(ev.regularized_evolution(population_size=3, tournament_size=2, seed=1))
  raise AssertionError(name)


DETERMINISTIC = {'sweeping', 'random7', 'random0', 'dedup_sweeping', 'dedup_random'}
EVOLUTION = {'regularized_evolution', 'hill_climb', 'nsga2', 'neat'}
ALGOS = ['sweeping', 'random7', 'random0', 'dedup_sweeping', 'dedup_random', 'regularized_evolution', 'hill_climb', 'nsga2', 'neat',
         'dedup_evolution']


def _pick(seq, i):
  for k, item in enumerate(seq):
    if i == k:
      return item
  raise Assume()


def _reward(algo, r):
  return (float(r), float(2 - r)) if algo.multi_objective else float(r)


def _state(algo, name):
  st = dict(num_proposals=algo.num_proposals, num_feedbacks=algo.num_feedbacks)
  inner = algo.generator if isinstance(algo, geno.Deduping) else algo
  if isinstance(algo, geno.Deduping):
    st['dedup_memory'] = sorted((str(k), len(v) if hasattr(v, '__len__') else 1) for k, v in algo._cache.items())   # pylint: disable=protected-access
    if isinstance(inner, ev_base.Evolution):      # the inner counters drive the evolution schedule
      st['inner_num_proposals'] = inner.num_proposals
      st['inner_num_feedbacks'] = inner.num_feedbacks
  if isinstance(inner, ev_base.Evolution):
    st['population'] = sorted((str(d.to_numbers()), repr(ev.get_fitness(d))) for d in inner.population)
    st['num_generations'] = inner.num_generations
    st['population_initialized'] = inner._population_initialized    # pylint: disable=protected-access
  return st


def h_recover(params, k, w, r0, r1, r2, r3, r4, r5, via_json, cont):
  name, sp, n_total = params['algo'], params['space'], params['n']
  k = _pick(list(range(n_total + 1)), k)
  w = _pick([0, 1, 2], w)
  if w > k:
    raise Assume()
  # lazily: only the rewards that are actually fed back (the first k - w proposals) are solver decisions
  sym_rewards = (r0, r1, r2, r3, r4, r5)
  if name in DETERMINISTIC:
    # (these algorithms never read a reward: fixed values, one per proposal)
    rewards = [t % 3 for t in range(6)]
  else:
    # three reward values (every order and tie) for up to 3 fed-back proposals, two values beyond that
    dom = [0, 1, 2] if k - w <= 3 else [0, 1]
    rewards = [_pick(dom, sym_rewards[t]) if t < k - w else 0 for t in range(6)]
  via_json = bool(via_json)
  cont = _pick([0, 1, 2, 3], cont) if name in DETERMINISTIC else 0
  with untraced():
    spec = pg.dna_spec(_space(sp))
    # the uninterrupted run: k proposals, feedback for the first k - w of them
    a = _algo(name)
    a.setup(spec)
    history = []
    try:
      for t in range(k):
        dna = a.propose()
        reward = None
        if t < k - w:
          reward = _reward(a, rewards[t % len(rewards)])
          a.feedback(dna, reward)
        history.append((dna, reward))
    except StopIteration:
      raise Assume()
    except ZeroDivisionError:
      raise Assume()          # (NSGA2 crowding distance on equal rewards fails in the uninterrupted run itself)
    # persisted history (optionally through JSON, as a backend would store it)
    persisted = []
    for dna, reward in history:
      d2 = pg.from_json(pg.to_json(dna)) if via_json else pickle.loads(pickle.dumps(dna))
      persisted.append((d2, reward))
    b = _algo(name)
    b.setup(spec)
    try:
      b.recover(persisted)
    except Exception as e:  # pylint: disable=broad-except
      return Violation(f'{name}:recover_raises:{type(e).__name__}', f'space={sp} k={k} w={w} rewards={rewards}: {e}'[:400])
    reach('recovered')
    sa, sb = _state(a, name), _state(b, name)
    if sa != sb:
      diff = sorted(key for key in sa if sa[key] != sb.get(key))
      return Violation(f'{name}:state_differs:{"+".join(diff)}' + (':missing_feedback' if w else ''),
                       f'space={sp} k={k} w={w} rewards={rewards[:k]}: uninterrupted {sa} recovered {sb}'[:600])
    if name in DETERMINISTIC:
      reach('continued')
      pa, pb = [], []
      for _ in range(cont):
        for alg, out in ((a, pa), (b, pb)):
          try:
            d = alg.propose()
            out.append(d.to_numbers())
            alg.feedback(d, _reward(alg, 1))
          except StopIteration:
            out.append('stop')
      if pa != pb:
        return Violation(f'{name}:continues_with_other_proposals' + (':missing_feedback' if w else ''),
                         f'space={sp} k={k} w={w}: uninterrupted {pa} recovered {pb}')
  return None


_ARGS = [('k', 'int'), ('w', 'int')] + [(f'r{i}', 'int') for i in range(6)] + [('via_json', 'bool'), ('cont', 'int')]


def h_recover_r(params, k, w, r0, r1, r2, r3, r4, r5, via_json, cont):
  if params.get('k') is not None and k != params['k']:
    raise Assume()
  return h_recover(params, k, w, r0, r1, r2, r3, r4, r5, via_json, cont)


def shards(tier, seed):
  quick = tier == 'quick'
  n = 5 if quick else 7
  out = []
  for name in ALGOS:
    for sp in (['small'] if quick else ['small', 'multi', 'cond']):
      for k in range(n + 1):
        heavy = (name not in DETERMINISTIC and k >= 3) or (name == 'dedup_random' and k >= 4)     # (slow paths: retries)
        out.append(dict(name=f'recover:{name}:{sp}:k{k}', fn='h_recover_r', params=dict(algo=name, space=sp, n=n, k=k), args=_ARGS,
                        budget_s=(150 if heavy else 40) if quick else 300, expect_s=70 if heavy else 10, per_path_s=30,
                        allow_vacuous=(sp == 'small' and k > 6)))      # (an exhaustive algorithm cannot propose more than the 6 points)
  return out


META = dict(
    rule='Shard = (algorithm, space, crash point k); symbolic: number of trailing missing feedbacks w in 0..2, the '
         'rewards of the fed-back proposals (3 values each - all orders and ties - up to 3 of them, 2 values beyond; fixed for algorithms that never read rewards), JSON persistence bit, number of continued '
         'proposals compared.',
    bounds=['algorithms: ' + ', '.join(ALGOS), 'spaces: small (6 points), multi, cond', 'run length N = 5 (quick) / 7 (thorough), '
            'every crash point 0..N', 'evolution RNG seeded concretely (population sizes 2-3)'],
    stubs=['algorithms run natively; every symbolic choice is made concrete by solver branching'],
    outside_claim=['third-party algorithms', 'N > 7', 'feedback arriving out of proposal order'],
    assumptions=['observable state = num_proposals, num_feedbacks, population with fitness, generation counter, '
                 'initial-population flag, de-duplication memory'],
)
