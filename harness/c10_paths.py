"""C10 — path addressing: parse/format round trip and arithmetic on symbolic key sequences,
traversal/query/flatten/canonicalize on skeleton values, KeyPathSet vs Python sets.

Formatting is the subject here, so the format() stub is OFF in every shard.
"""
import pyglove as pg
from pyglove.core import utils as pgu
from engine.chx import Assume, Violation, reach
from harness import treeops as T

PROPERTY = 'C10'
LEVEL = 'model_checking'
REACH_POINTS = ['roundtrip', 'arith', 'order', 'traverse', 'flatten', 'pathset', 'pathset.mutation']

ALPHABET = ['.', '[', ']', '-', '0', '1', 'a', 'é']


def _balanced(s):
  d = 0
  for ch in s:
    if ch == '[':
      d += 1
    elif ch == ']':
      d -= 1
      if d < 0:
        return False
  return d == 0


def _mk_str(codes, n):
  """Concrete string of length n over ALPHABET from symbolic codes (the solver enumerates the codes)."""
  out = ''
  for k in range(3):
    if k < n:
      c = codes[k]
      ch = None
      for idx, a in enumerate(ALPHABET):
        if c == idx:
          ch = a
      if ch is None:
        raise Assume()
      out += ch
  return out


def _key(kind, num, codes, n):
  """kind 0: int key (symbolic, unbounded); kind 1: str key of length n in 1..3 over ALPHABET."""
  if kind == 0:
    return num
  if kind == 1:
    if not 1 <= n <= 3:
      raise Assume()
    s = _mk_str(codes, n)
    if not _balanced(s):
      raise Assume()
    return s
  raise Assume()


_KARGS = lambda p: [(f'{p}k', 'int'), (f'{p}num', 'int'), (f'{p}c0', 'int'), (f'{p}c1', 'int'), (f'{p}c2', 'int'), (f'{p}n', 'int')]


def h_roundtrip(params, ak, anum, ac0, ac1, ac2, an, bk, bnum, bc0, bc1, bc2, bn, ln):
  """parse(str(p)).keys == p.keys for key sequences of length 1..2."""
  if params.get('ln') is not None and (ln != params['ln'] or ak != params['ak'] or (ln == 2 and bk != params['bk'])):
    raise Assume()
  k1 = _key(ak, anum, (ac0, ac1, ac2), an)
  keys = [k1]
  if ln == 2:
    keys.append(_key(bk, bnum, (bc0, bc1, bc2), bn))
  elif ln != 1:
    raise Assume()
  if params.get('bound_ints'):
    for k in keys:
      if isinstance(k, int) and not -3 <= k <= 12:
        raise Assume()
  p = pg.KeyPath(keys)
  reach('roundtrip')
  s = str(p)
  try:
    q = pg.KeyPath.parse(s)
  except ValueError as e:
    return Violation('roundtrip:parse_raises', f'keys={keys!r} printed={s!r} {e!r}')
  if q.keys != keys:
    kinds = '+'.join('int' if isinstance(k, int) else 'str' for k in keys)
    return Violation(f'roundtrip:keys_differ:{kinds}', f'keys={keys!r} printed={s!r} parsed={q.keys!r}')
  if not (q == p) or hash(q) != hash(p):
    return Violation('roundtrip:eq_or_hash', f'keys={keys!r}')
  if p.path != s:
    return Violation('roundtrip:path_property', '')
  return None


def h_arith(params, a0, a1, a2, b0, b1, la, lb, c0, c1):
  """Concatenation, parent, subtraction, prefix test, ordering vs tuple arithmetic on key lists.
  Keys are a mix of symbolic ints and strings chosen from a small set by symbolic selectors."""
  pool = ['a', 'b', 'x.y', '0', 'ab', 'x']       # incl. keys whose text is a prefix of another key's text

  def key(sel, num):
    if sel == 0:
      return num
    for idx, s in enumerate(pool):
      if sel == idx + 1:
        return s
    raise Assume()
  if not (0 <= la <= 3 and 0 <= lb <= 2):
    raise Assume()
  if params.get('la') is not None and (la != params['la'] or lb != params['lb']):
    raise Assume()
  ka = [key(c0, a0), key(c1, a1), key(c0, a2)][:[0, 1, 2, 3][la] if la in (0, 1, 2, 3) else 0]
  if la == 0:
    ka = []
  elif la == 1:
    ka = [key(c0, a0)]
  elif la == 2:
    ka = [key(c0, a0), key(c1, a1)]
  else:
    ka = [key(c0, a0), key(c1, a1), key(c0, a2)]
  if lb == 0:
    kb = []
  elif lb == 1:
    kb = [key(c1, b0)]
  else:
    kb = [key(c1, b0), key(c0, b1)]
  pa, pb = pg.KeyPath(ka), pg.KeyPath(kb)
  reach('arith')
  if (pa + pb).keys != ka + kb:
    return Violation('arith:concat', f'{ka!r} + {kb!r} -> {(pa + pb).keys!r}')
  if len(pa) != len(ka) or pa.depth != len(ka):
    return Violation('arith:len', '')
  if ka:
    if pa.parent.keys != ka[:-1] or pa.key != ka[-1]:
      return Violation('arith:parent_or_key', f'{ka!r}')
  is_prefix = ka[:len(kb)] == kb
  if pa.is_relative_to(pb) != is_prefix:
    return Violation('arith:is_relative_to', f'{ka!r} vs {kb!r}')
  try:
    diff = (pa - pb).keys
    if not is_prefix or diff != ka[len(kb):]:
      return Violation('arith:subtract', f'{ka!r} - {kb!r} -> {diff!r}')
  except ValueError:
    if is_prefix:
      return Violation('arith:subtract_raises_on_prefix', f'{ka!r} - {kb!r}')
  if ((pa + pb) - pa).keys != kb:
    return Violation('arith:add_then_subtract', f'{ka!r} {kb!r}')
  if (pa == pb) != (ka == kb) or (pa != pb) != (ka != kb):
    return Violation('arith:eq', f'{ka!r} {kb!r}')
  if ka == kb and hash(pa) != hash(pb):
    return Violation('arith:hash', '')
  # ordering: total, consistent with equality, antisymmetric
  reach('order')
  try:
    lt, gt, le, ge = pa < pb, pa > pb, pa <= pb, pa >= pb
  except Exception as e:  # pylint: disable=broad-except
    return Violation(f'order:raises:{type(e).__name__}', f'{ka!r} {kb!r}')
  if int(lt) + int(gt) + int(ka == kb) != 1 or le != (lt or ka == kb) or ge != (gt or ka == kb):
    return Violation('order:not_total_or_inconsistent', f'{ka!r} {kb!r} lt={lt} gt={gt}')
  if (pb > pa) != lt:
    return Violation('order:gt_not_swapped_lt', f'{ka!r} {kb!r}')
  # prefix is smaller
  if is_prefix and len(ka) > len(kb) and not gt:
    return Violation('order:prefix_not_smaller', f'{ka!r} {kb!r}')
  return None


# ---- traversal / flatten on nested values ---------------------------------------------

def v_sym(v):
  return T.t_dict(v)


def v_plain(v):
  return {'x': [{'p': v[0]}, v[1]], 'y': {'z': [v[2]], 'k.q': v[3]}, 'w': v[3], 0: {'n': v[1]}}


def v_mixed(v):
  return pg.Dict(objs=pg.List([T.Obj(n=v[0]), T.Leaf(v=v[1])]), h=T.RefHolder(r=pg.Dict(s=v[2]), k=pg.List([v[3]])))


VALUES = dict(sym=v_sym, plain=v_plain, mixed=v_mixed)


def _all_locations(value, path, out):
  out.append((path, value))
  if isinstance(value, pg.Symbolic):
    for k, c in value.sym_items():
      _all_locations(c, pg.KeyPath(k, path), out)
  elif isinstance(value, dict):
    for k, c in value.items():
      _all_locations(c, pg.KeyPath(k, path), out)
  elif isinstance(value, list):
    for k, c in enumerate(value):
      _all_locations(c, pg.KeyPath(k, path), out)
  return out


def h_traverse(params, v0, v1, v2, v3, which):
  value = VALUES[params['value']]((v0, v1, v2, v3))
  want = _all_locations(value, pg.KeyPath(), [])
  reach('traverse')
  visited = []
  if isinstance(value, pg.Symbolic):
    def pre3(path, v, parent):
      visited.append((path, v))
      return pg.TraverseAction.ENTER
    pg.traverse(value, pre3)
  else:
    def pre(path, v):
      visited.append((path, v))
      return True
    pgu.traverse(value, preorder_visitor_fn=pre)
  if len(visited) != len(want):
    return Violation('traverse:visit_count', f'{len(visited)} vs {len(want)}')
  for (p, v), (wp, wv) in zip(visited, want):
    if p != wp or v is not wv:
      return Violation('traverse:order_or_identity', f'{p} vs {wp}')
  seen = set()
  for p, v in visited:
    if str(p) in seen:
      return Violation('traverse:path_visited_twice', str(p))
    seen.add(str(p))
    got = p.query(value) if len(p) else value
    if got is not v:
      return Violation('traverse:reported_path_resolves_elsewhere', str(p))
    if not p.exists(value):
      return Violation('traverse:exists_false', str(p))
  if isinstance(value, pg.Symbolic):
    # pg.query / sym_descendants agree with the location list
    desc = value.sym_descendants()
    syms = [v for p, v in want[1:] if True]
    leaf_or_node = [v for p, v in want[1:]]
    if len(desc) != len(leaf_or_node):
      return Violation('traverse:sym_descendants_count', f'{len(desc)} vs {len(leaf_or_node)}')
    for p, v in want[1:]:
      # querying the exact path returns exactly that node
      q = pg.query(value, '^' + ''.join('\\' + c if c in '.[]' else c for c in str(p)) + '$')
      if list(q.keys()) != [str(p)] or (q[str(p)] is not v and q[str(p)] != v):
        return Violation('traverse:pg_query_exact_path', f'{p}: {list(q.keys())}')
  return None


def _to_plain(x):
  if isinstance(x, dict):
    return {k: _to_plain(v) for k, v in x.items()}
  if isinstance(x, list):
    return [_to_plain(v) for v in x]
  return x


def h_flatten(params, v0, v1, v2, v3, neg, k1, k2):
  """canonicalize(flatten(x)) == x; flattened keys resolve to their values. Includes int-keyed dicts."""
  shape = params['shape']
  if shape == 'nested':
    x = {'x': [{'p': v0}, v1], 'y': {'z': [v2], 'k.q': v3}, 'w': v3}
  elif shape == 'intkeys':
    # dict with (possibly negative / sparse) int keys under a node
    for k in (k1, k2):
      if not -2 <= k <= 3:
        raise Assume()
    if k1 == k2:
      raise Assume()
    if (k1 == 0 and k2 == 1) or (k1 == 1 and k2 == 0):
      raise Assume()       # a dense 0..n-1 int-keyed dict is a list in path-keyed form by design
    x = {'a': {k1: v0, k2: v1}, 'b': [v2, [v3]]}
  elif shape == 'lists':
    x = {'l': [[v0, v1], [], [v2, {'m': v3}]], 'e': {}}
  else:
    raise AssertionError(shape)
  reach('flatten')
  flat = pgu.flatten(x, flatten_complex_keys=False)
  for k, v in flat.items():
    p = pg.KeyPath.parse(k)
    try:
      got = p.query(x)
    except (KeyError, IndexError, ValueError) as e:
      return Violation(f'flatten:key_does_not_resolve:{shape}', f'{k!r}: {e!r}')
    if got is not v and got != v:
      return Violation(f'flatten:key_resolves_elsewhere:{shape}', f'{k!r}')
  back = pgu.canonicalize(flat)
  if back != x:
    return Violation(f'flatten:canonicalize_not_inverse:{shape}', f'{x!r} -> {flat!r} -> {back!r}')
  return None


# ---- KeyPathSet vs Python set ------------------------------------------------------------
UNIVERSE = ['a', 'a.b', 'a.b.c', 'a.x', 'x.y.z', 'x.y.w', 'b[0]', 'b[0].c']


def _bits_set(bits):
  return {u for u, b in zip(UNIVERSE, bits) if b}


def _as_set(ps):
  return {str(p) for p in ps}


def h_pathset(params, a0, a1, a2, a3, a4, a5, a6, a7, b0, b1, b2, b3, b4, b5, b6, b7, op, m1, m2):
  if params.get('op') is not None and op != params['op']:
    raise Assume()
  sa, sb = _bits_set((a0, a1, a2, a3, a4, a5, a6, a7)), _bits_set((b0, b1, b2, b3, b4, b5, b6, b7))
  if len(sa) > 3 or len(sb) > 3:
    raise Assume()
  A, B = pgu.KeyPathSet(sorted(sa)), pgu.KeyPathSet(sorted(sb))
  reach('pathset')
  if _as_set(A) != sa or _as_set(B) != sb:
    return Violation('pathset:construct', f'{sa!r}')
  for u in UNIVERSE:
    if (u in A) != (u in sa):
      return Violation('pathset:contains', u)
  ops = ['union', 'intersection', 'difference', 'add_op', 'update', 'intersection_update', 'difference_update', 'rebase',
         'copy']
  name = None
  for idx, o in enumerate(ops):
    if op == idx:
      name = o
  if name is None:
    raise Assume()
  if name == 'union':
    R, want = A.union(B), sa | sb
  elif name == 'add_op':
    R, want = A + B, sa | sb
  elif name == 'intersection':
    R, want = A.intersection(B), sa & sb
  elif name == 'difference':
    R, want = A.difference(B), sa - sb
  elif name == 'copy':
    R, want = A.copy(), set(sa)
  elif name == 'rebase':
    R = A.copy()
    R.rebase('r.s')
    want = {'r.s.' + u for u in sa}
  else:
    R = A.copy()
    getattr(R, name)(B)
    want = {'update': sa | sb, 'intersection_update': sa & sb, 'difference_update': sa - sb}[name]
  if _as_set(R) != want:
    return Violation(f'pathset:{name}:result', f'{sorted(sa)} {sorted(sb)} -> {sorted(_as_set(R))} want {sorted(want)}')
  if _as_set(A) != sa or _as_set(B) != sb:
    return Violation(f'pathset:{name}:operand_modified', f'{sorted(sa)} {sorted(sb)}')
  if (R == pgu.KeyPathSet(sorted(want))) is not True:
    return Violation(f'pathset:{name}:eq', '')
  # one mutation on the result must not show through the operands (and vice versa)
  reach('pathset.mutation')
  mu = None
  for idx, u in enumerate(UNIVERSE):
    if m1 == idx:
      mu = u
  if mu is None:
    raise Assume()
  if name == 'rebase':
    mu = 'r.s.' + mu
  if m2 == 0:
    R.add(mu)
    want = want | {mu}
  elif m2 == 1:
    if mu in want:
      R.remove(mu)
      want = want - {mu}
  elif m2 == 2:
    if mu not in sb:
      B.add(mu)
      sb = sb | {mu}
  else:
    raise Assume()
  if _as_set(R) != want or _as_set(A) != sa or _as_set(B) != sb:
    return Violation(f'pathset:{name}:aliasing_after_mutation', f'A={sorted(_as_set(A))} want {sorted(sa)}; '
                     f'B={sorted(_as_set(B))} want {sorted(sb)}; R={sorted(_as_set(R))} want {sorted(want)}')
  return None


def shards(tier, seed):
  quick = tier == 'quick'
  b = 100 if quick else 600
  out = []
  rt = _KARGS('a') + _KARGS('b') + [('ln', 'int')]
  for ln in (1, 2):
    for ak in (0, 1):
      for bk in ((0, 1) if ln == 2 else (0,)):
        out.append(dict(name=f'roundtrip:len{ln}:{"si"[1 - ak]}{"si"[1 - bk] if ln == 2 else ""}', fn='h_roundtrip',
                        params=dict(ln=ln, ak=ak, bk=bk), args=rt, budget_s=b, per_path_s=20, format_stub=False))
  for la in range(4):
    for lb in range(3):
      out.append(dict(name=f'arith:{la}:{lb}', fn='h_arith', params=dict(la=la, lb=lb),
                      args=[('a0', 'int'), ('a1', 'int'), ('a2', 'int'), ('b0', 'int'), ('b1', 'int'), ('la', 'int'), ('lb', 'int'),
                            ('c0', 'int'), ('c1', 'int')], budget_s=b // 2, per_path_s=20, format_stub=False))
  for name in VALUES:
    out.append(dict(name=f'traverse:{name}', fn='h_traverse', params=dict(value=name),
                    args=[('v0', 'int'), ('v1', 'int'), ('v2', 'int'), ('v3', 'int'), ('which', 'int')], budget_s=b, per_path_s=30,
                    format_stub=False))
  for shape in ('nested', 'intkeys', 'lists'):
    out.append(dict(name=f'flatten:{shape}', fn='h_flatten', params=dict(shape=shape),
                    args=[('v0', 'int'), ('v1', 'int'), ('v2', 'int'), ('v3', 'int'), ('neg', 'bool'), ('k1', 'int'), ('k2', 'int')],
                    budget_s=b, per_path_s=30, format_stub=False))
  ps = [(f'a{i}', 'bool') for i in range(8)] + [(f'b{i}', 'bool') for i in range(8)] + [('op', 'int'), ('m1', 'int'), ('m2', 'int')]
  for op in range(9):
    out.append(dict(name=f'pathset:op{op}', fn='h_pathset', params=dict(op=op), args=ps, budget_s=b, per_path_s=20, format_stub=False))
  return out


META = dict(
    rule='Shards: round trip (key kinds/lengths/characters symbolic), arithmetic/ordering (symbolic ints and key '
         'selectors), traversal/flatten on skeleton values, KeyPathSet algebra (symbolic membership bits, op, one '
         'follow-up mutation).',
    bounds=['key sequences of length 1..2 (round trip) / 0..3 (arithmetic)', 'string keys of length 1..3 over %r with '
            'balanced brackets; int keys: symbolic (formatting realizes them)' % ALPHABET,
            'nested values: 3 skeletons (symbolic tree, plain dict/list mixture with int and dotted keys, objects)',
            'flatten: int keys in [-2,3]', 'KeyPathSet: 8-path universe, <= 3 paths per operand'],
    stubs=[],
    outside_claim=['keys that are neither str nor int, StrKey subclasses', 'strings longer than 3 / other characters',
                   'merge/merge_tree', 'rebinder dictionaries'],
    assumptions=['format() stub is off: formatted text is the subject'],
)
