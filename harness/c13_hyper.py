"""C13 — hyper values: decode and encode are mutually inverse and side-effect free.

Skeleton = an object template with placeholders; symbolic = the DNA decisions (validated by an
independent predicate and an independent reference decoder written over the template's
structure). pyglove's decode/encode/iterate run natively (`untraced`) once the decisions have
been made concrete by solver branching; the RNG of random generation is a solver variable.
"""
import pyglove as pg
from pyglove.core import typing as pgt
from engine.chx import Assume, Violation, reach, untraced
from harness import treeops as T

PROPERTY = 'C13'
LEVEL = 'model_checking'
REACH_POINTS = ['where.nested', 'decode', 'encode', 'iterate', 'random', 'bind.accepted', 'bind.refused']


class Layer(pg.Object):
  units: pgt.Int(min_value=1, max_value=64) = 8
  act: pgt.Enum('relu', ['relu', 'tanh', 'gelu']) = 'relu'
  sub: pgt.Any() = None


class Sub(Layer):
  pass


def _templates():
  return dict(
      flat=pg.Dict(a=pg.oneof([1, 2, 3]), b=pg.manyof(2, ['x', 'y', 'z'], distinct=True, sorted=True)),
      cond=pg.Dict(a=pg.oneof([1, pg.oneof(['p', 'q']), pg.Dict(k=pg.oneof([7, 8, 9]))]), z=0),
      deep3=pg.List([pg.oneof([pg.oneof([pg.oneof([1, 2]), 3]), 4])]),
      typed=Layer(units=pg.oneof([8, 16, 32]), act=pg.oneof(['relu', 'tanh']), sub=pg.oneof([None, Layer(units=pg.oneof([1, 2]))])),
      multi_d=pg.Dict(m=pg.manyof(2, [pg.oneof([1, 2]), 'k', pg.Dict(z=pg.oneof(['u', 'v']))], distinct=True, sorted=False)),
      multi_s=pg.Dict(m=pg.manyof(2, [1, 2, 3], distinct=False, sorted=True), n=pg.manyof(2, ['a', 'b'], distinct=False, sorted=False)),
      in_list=pg.List([pg.oneof(['a', 'b']), pg.Dict(q=pg.oneof([1, 2])), 5]),
      classes=pg.Dict(o=pg.oneof([Layer(units=pg.oneof([1, 2])), Sub(units=pg.oneof([1, 2])), Layer(units=5, act='tanh')])),
      derived=pg.Dict(a=pg.oneof([1, 2]), b=pg.hyper.ValueReference(['a']), c=pg.Dict(d=pg.hyper.ValueReference(['a']), e=pg.oneof(['x', 'y']))),
      floaty=pg.Dict(f=pg.floatv(0.0, 1.0), c=pg.oneof([1, 2])),
  )


_CACHE = {}


def tmpl(name):
  if name not in _CACHE:
    with untraced():
      value = _templates()[name]
      t = pg.template(value)
      _CACHE[name] = (value, t, t.dna_spec())
  return _CACHE[name]


class Cursor:
  def __init__(self, vals):
    self.vals, self.i = list(vals), 0

  def next(self):
    if self.i >= len(self.vals):
      raise Assume()
    v = self.vals[self.i]
    self.i += 1
    return v


def _conc(v, n):
  for c in range(n):
    if v == c:
      return c
  raise Assume()        # out-of-range decisions are C11's subject


def ref_decode(node, cur, nums):
  """Independent decoder over the template structure (also collects the flat decisions)."""
  if isinstance(node, pg.hyper.Choices):
    cands = list(node.candidates)
    k = node.num_choices
    picks = []
    vals = []
    for _ in range(k):
      v = _conc(cur.next(), len(cands))
      for u in vals:
        if (node.choices_distinct and u == v) or (node.choices_sorted and u > v):
          raise Assume()
      vals.append(v)
      nums.append(v)
      picks.append(ref_decode(cands[v], cur, nums))
    return picks[0] if isinstance(node, pg.hyper.OneOf) else picks
  if isinstance(node, pg.hyper.Float):
    v = _conc(cur.next(), 5) / 4.0
    nums.append(v)
    return v
  if isinstance(node, pg.hyper.ValueReference):
    return ('ref', str(node.reference_paths[0]))
  if isinstance(node, pg.Dict):
    return {k: ref_decode(v, cur, nums) for k, v in node.sym_items()}
  if isinstance(node, pg.List):
    return [ref_decode(v, cur, nums) for v in node.sym_values()]
  if isinstance(node, pg.Object):
    return (type(node), {k: ref_decode(v, cur, nums) for k, v in node.sym_items()})
  return node


def _resolve_refs(ref, root):
  if isinstance(ref, tuple) and len(ref) == 2 and ref[0] == 'ref':
    cur = root
    for k in pg.KeyPath.parse(ref[1]).keys:
      cur = cur[k]
    return cur
  if isinstance(ref, dict):
    return {k: _resolve_refs(v, root) for k, v in ref.items()}
  if isinstance(ref, list):
    return [_resolve_refs(v, root) for v in ref]
  return ref


def _matches(value, ref):
  if isinstance(ref, tuple) and len(ref) == 2 and isinstance(ref[0], type) and issubclass(ref[0], pg.Object):
    return type(value) is ref[0] and all(_matches(value.sym_getattr(k), v) for k, v in ref[1].items())
  if isinstance(ref, dict):
    return isinstance(value, dict) and list(value.keys()) == list(ref.keys()) and all(_matches(value[k], v) for k, v in ref.items())
  if isinstance(ref, list):
    return isinstance(value, list) and len(value) == len(ref) and all(_matches(a, b) for a, b in zip(value, ref))
  return type(value) is type(ref) and value == ref


def _has_placeholder(v):
  if isinstance(v, pg.hyper.HyperValue):
    return True
  if isinstance(v, pg.Symbolic):
    return any(_has_placeholder(c) for c in v.sym_values())
  if isinstance(v, (list, tuple)):
    return any(_has_placeholder(c) for c in v)
  if isinstance(v, dict):
    return any(_has_placeholder(c) for c in v.values())
  return False


NV = 8
_ARGS = [(f'd{i}', 'int') for i in range(NV)]


def h_decode(params, d0, d1, d2, d3, d4, d5, d6, d7):
  name = params['tmpl']
  value, t, spec = tmpl(name)
  cur = Cursor((d0, d1, d2, d3, d4, d5, d6, d7))
  nums = []
  ref = ref_decode(value, cur, nums)
  for k in range(cur.i, NV):
    if cur.vals[k] != 0:
      raise Assume()              # canonical form: unused decision variables are 0
  with untraced():
    before = pg.to_json(value)
    try:
      dna = pg.DNA.from_numbers(nums, spec)
    except ValueError as e:
      return Violation(f'decode:valid_decisions_rejected:{name}', f'{nums!r}: {e}')
    reach('decode')
    v = t.decode(dna)
    if _has_placeholder(v):
      return Violation(f'decode:placeholder_left:{name}', f'{nums!r} -> {v!r}')
    ref = _resolve_refs(ref, ref)
    if not _matches(v, ref):
      return Violation(f'decode:wrong_value:{name}', f'{nums!r} -> {v!r}, expected {ref!r}')
    if isinstance(v, pg.Symbolic):
      r = T.inv(v)
      if r is not None:
        return Violation(f'decode:decoded_tree:{r[0]}:{name}', r[1])
    v2 = t.decode(dna)
    if not pg.eq(v, v2):
      return Violation(f'decode:not_repeatable:{name}', f'{nums!r}')
    if v2 is v:
      return Violation(f'decode:returns_shared_object:{name}', '')
    reach('encode')
    try:
      back = t.encode(v)
    except Exception as e:  # pylint: disable=broad-except
      return Violation(f'encode:raises:{name}:{type(e).__name__}', f'{nums!r} -> {v!r}: {e}'[:300])
    if not (back == dna):
      return Violation(f'encode:not_inverse:{name}', f'{nums!r} decoded {v!r} encoded {back!r}')
    if pg.to_json(value) != before or T.inv(value) is not None:
      return Violation(f'decode_encode_modified_template:{name}', f'{nums!r}')
    # mutating the decoded value must not show through the template
    if isinstance(v, (pg.Dict, pg.Object)) and list(v.sym_keys()):
      try:
        with pg.allow_writable_accessors(True):
          k0 = list(v.sym_keys())[0]
          child = v.sym_getattr(k0)
          if isinstance(child, pg.Symbolic) and list(child.sym_keys()):
            kk = list(child.sym_keys())[0]
            child.rebind({kk: child.sym_getattr(kk)}, raise_on_no_change=False)
      except Exception:  # pylint: disable=broad-except
        pass
      if pg.to_json(value) != before:
        return Violation(f'decoded_value_shares_state_with_template:{name}', '')
  return None


def h_iterate(params, n):
  """Iterating the template yields space_size pairwise different values (n-th vs all later ones)."""
  name = params['tmpl']
  value, t, spec = tmpl(name)
  if spec.space_size < 0:
    raise Assume()
  key = ('iter', name)
  if key not in _CACHE:
    with untraced():
      _CACHE[key] = list(pg.iter(value))
  vals = _CACHE[key]
  reach('iterate')
  if len(vals) != spec.space_size:
    return Violation(f'iterate:count_ne_space_size:{name}', f'{len(vals)} vs {spec.space_size}')
  i = None
  for c in range(len(vals)):
    if n == c:
      i = c
  if i is None:
    raise Assume()
  with untraced():
    for j in range(i + 1, len(vals)):
      if pg.eq(vals[i], vals[j]):
        return Violation(f'iterate:duplicate_values:{name}', f'#{i} and #{j}: {vals[i]!r}')
  return None


def h_random(params, rng):
  name = params['tmpl']
  value, t, spec = tmpl(name)
  with untraced():
    reach('random')
    dna = pg.random_dna(spec, rng)
    try:
      spec.validate(dna)
    except ValueError as e:
      return Violation(f'random:invalid_dna:{name}', f'{dna!r}: {e}')
    v = t.decode(dna)
    if _has_placeholder(v):
      return Violation(f'random:placeholder_left:{name}', repr(v))
    back = t.encode(v)
    if not (back == dna):
      return Violation(f'random:encode_not_inverse:{name}', f'{dna!r} -> {back!r}')
  return None


def h_where(params, d0, d1):
  """A `where` filter leaves the filtered-out placeholders in place and decodes the others."""
  with untraced():
    value = pg.Dict(a=pg.oneof([1, 2]), b=pg.manyof(2, [1, 2, 3], distinct=True, sorted=True), c=pg.List([pg.oneof(['x', 'y'])]))
    t = pg.template(value, where=lambda x: isinstance(x, pg.hyper.ManyOf))
    spec = t.dna_spec()
    before = pg.to_json(value)
  a, b = _conc(d0, 3), _conc(d1, 3)
  if not a < b:
    raise Assume()
  with untraced():
    reach('decode')
    dna = pg.DNA([a, b], spec=spec)
    v = t.decode(dna)
    if not isinstance(v.sym_getattr('a'), pg.hyper.OneOf) or not isinstance(v.c.sym_getattr(0), pg.hyper.OneOf):
      return Violation('where:filtered_placeholder_decoded', repr(v))
    if list(v.b) != [[1, 2, 3][a], [1, 2, 3][b]]:
      return Violation('where:selected_placeholder_wrong', repr(v.b))
    if pg.to_json(value) != before:
      return Violation('where:template_modified', '')
    back = t.encode(v)
    if not (back == dna):
      return Violation('where:encode_not_inverse', f'{dna!r} -> {back!r}')
  return None


def h_where_nested(params, r_outer, r_inner, r_inner2, r_y, n):
  """A `where` filter applies at every depth: a rejected placeholder stays a placeholder also when it sits inside a
  candidate of an accepted choice; the space is exactly the accepted part."""
  from engine.chx import concretize
  rej = {name for name, bit in (('outer', r_outer), ('inner', r_inner), ('inner2', r_inner2), ('y', r_y)) if bool(bit)}
  with untraced():
    value = pg.Dict(x=pg.oneof([pg.Dict(p=pg.oneof([1, 2], name='inner'), q=pg.oneof(['u', 'v'], name='inner2')), 'plain'],
                               name='outer'),
                    y=pg.oneof([0, 1], name='y'))
    before = pg.to_json(value)
    t = pg.template(value, where=lambda x: x.name not in rej)
    # (the filter is applied per placeholder: accepted placeholders inside a rejected choice are decision points too)
    nested = (1 if 'inner' in rej else 2) * (1 if 'inner2' in rej else 2)
    size_x = nested if 'outer' in rej else nested + 1
    want = size_x * (1 if 'y' in rej else 2)
    spec = t.dna_spec()
    reach('where.nested')
    if spec.space_size != want:
      return Violation('where_nested:space_size', f'rejected={sorted(rej)}: space {spec.space_size}, accepted part has {want}')
    dnas = list(spec.iter_dna()) if want > 1 else [pg.DNA(None)]
    if len(dnas) != want:
      return Violation('where_nested:iteration_length', f'rejected={sorted(rej)}: {len(dnas)} vs {want}')
  n = concretize(n, range(len(dnas)))
  with untraced():
    v = t.decode(dnas[n])
    def is_ph(z):
      return isinstance(z, pg.hyper.HyperValue)
    got_x, got_y = v.sym_getattr('x'), v.sym_getattr('y')
    if is_ph(got_y) != ('y' in rej) or is_ph(got_x) != ('outer' in rej):
      return Violation('where_nested:top_level_placeholder_handling', f'rejected={sorted(rej)}: {v!r}'[:300])
    if 'outer' not in rej and isinstance(got_x, pg.Dict):
      if is_ph(got_x.sym_getattr('p')) != ('inner' in rej) or is_ph(got_x.sym_getattr('q')) != ('inner2' in rej):
        return Violation('where_nested:rejected_nested_placeholder_decoded' if not is_ph(got_x.sym_getattr('p')) and 'inner' in rej
                         or not is_ph(got_x.sym_getattr('q')) and 'inner2' in rej else 'where_nested:accepted_nested_placeholder_kept',
                         f'rejected={sorted(rej)}: {v!r}'[:300])
    if pg.to_json(value) != before:
      return Violation('where_nested:template_modified', '')
    if not rej & {'inner', 'inner2'}:
      # (encoding a value that still holds a placeholder inside a chosen candidate is outside the claim)
      back = t.encode(v)
      if not (back == dnas[n]):
        return Violation('where_nested:encode_not_inverse', f'{dnas[n]!r} -> {back!r}')
  return None


def h_where_none(params, pick):
  """A `where` filter that selects no placeholder: decode(DNA(None)) still must not touch the template (derived
  values are written into a copy), and the same hyper value keeps its full space afterwards."""
  with untraced():
    value = pg.Dict(a=pg.oneof([1, 2]), b=pg.hyper.ValueReference(['a']), c=pg.Dict(d=pg.hyper.ValueReference(['a'])))
    before = pg.to_json(value)
    t = pg.template(value, where=lambda x: isinstance(x, pg.hyper.ManyOf))
    reach('decode')
    v = t.decode(pg.DNA(None))
    if v is value:
      return Violation('where_none:decode_returns_the_template_value', '')
    if pg.to_json(value) != before:
      return Violation('where_none:template_modified', '')
    t2 = pg.template(value)
    if t2.dna_spec().space_size != 2:
      return Violation('where_none:space_changed_after_decode', str(t2.dna_spec().space_size))
  p = _conc(pick, 2)
  with untraced():
    v2 = t2.decode(pg.DNA(p))
    if v2.a != [1, 2][p] or v2.b != v2.a or v2.c.d != v2.a:
      return Violation('where_none:derived_value_wrong', repr(v2))
  return None


BOUNDS = [None, -1.0, 0.0, 0.5, 1.0]


def h_bind(params, lo, hi, smin, smax, kind, pick):
  """A placeholder bound to a typed field: either the binding is refused (ValueError / TypeError at construction), or every
  DNA of its space decodes to a value the field's spec accepts. A binding whose whole range lies inside the field's range is
  not refused."""
  from engine.chx import concretize
  lo, hi = concretize(lo, range(1, len(BOUNDS))), concretize(hi, range(1, len(BOUNDS)))
  smin, smax = concretize(smin, range(len(BOUNDS))), concretize(smax, range(len(BOUNDS)))
  kind = params['kind']
  if lo > hi or (smin and smax and smin > smax):
    raise Assume()
  sym_pick = pick
  with untraced():
    lo, hi, smin, smax = BOUNDS[lo], BOUNDS[hi], BOUNDS[smin], BOUNDS[smax]
    import pyglove.core.typing as pgt
    try:
      if kind == 0:
        spec = pgt.Float(min_value=smin, max_value=smax)
        hv = pg.floatv(lo, hi)
        values = [lo, (lo + hi) / 2, hi]
        inside = (smin is None or lo >= smin) and (smax is None or hi <= smax)
      elif kind == 1:
        spec = pgt.Int(min_value=None if smin is None else int(smin * 2), max_value=None if smax is None else int(smax * 2))
        cands = [int(lo * 2), int(hi * 2), 0]
        hv = pg.oneof(cands)
        values = [0, 1, 2]
        inside = all((spec.min_value is None or c >= spec.min_value) and (spec.max_value is None or c <= spec.max_value) for c in cands)
      else:
        spec = pgt.List(pgt.Float(min_value=smin, max_value=smax))
        hv = pg.manyof(2, [lo, hi, 0.25])
        values = [[0, 1], [1, 2], [0, 2]]
        inside = all((smin is None or c >= smin) and (smax is None or c <= smax) for c in (lo, hi, 0.25))
    except (ValueError, TypeError):
      raise Assume()
    try:
      holder = pg.Dict(x=hv, value_spec=pgt.Dict([('x', spec)]))
    except (ValueError, TypeError) as e:
      reach('bind.refused')
      if inside:
        return Violation(f'bind:compatible_placeholder_refused:{kind}', f'{hv!r} into {spec!r}: {e!r}'[:300])
      return None
    reach('bind.accepted')
  pick = concretize(sym_pick, (0, 1, 2))         # which DNA of the accepted placeholder (asked only now)
  with untraced():
    t = pg.template(holder)
    dna = pg.DNA(values[pick])
    try:
      out = t.decode(dna)
    except Exception as e:  # pylint: disable=broad-except
      return Violation(f'bind:valid_dna_does_not_decode:{kind}:{type(e).__name__}', f'{hv!r} bound to {spec!r}, DNA {dna!r}: {e!r}'[:300])
    try:
      spec.apply(out.x)
    except (ValueError, TypeError) as e:
      return Violation(f'bind:decoded_value_rejected_by_field:{kind}', f'{hv!r} bound to {spec!r}: {out.x!r}')
  return None


def shards(tier, seed):
  quick = tier == 'quick'
  b = 40 if quick else 400
  out = []
  for name in _templates():
    out.append(dict(name=f'decode:{name}', fn='h_decode', params=dict(tmpl=name), args=_ARGS, budget_s=b, per_path_s=20))
    out.append(dict(name=f'random:{name}', fn='h_random', params=dict(tmpl=name), args=[('rng', 'rng')], budget_s=b, per_path_s=20))
    if name != 'floaty':
      out.append(dict(name=f'iterate:{name}', fn='h_iterate', params=dict(tmpl=name), args=[('n', 'int')], budget_s=b, per_path_s=20))
  for kind, kname in enumerate(('floatv', 'oneof', 'manyof')):
    out.append(dict(name=f'bind:{kname}', fn='h_bind', params=dict(kind=kind),
                    args=[(n, 'int') for n in ('lo', 'hi', 'smin', 'smax', 'kind', 'pick')], budget_s=b * 3, expect_s=30, per_path_s=20))
  out.append(dict(name='where_nested', fn='h_where_nested', params={},
                  args=[('r_outer', 'bool'), ('r_inner', 'bool'), ('r_inner2', 'bool'), ('r_y', 'bool'), ('n', 'int')],
                  budget_s=b * 2, expect_s=20, per_path_s=20))
  out.append(dict(name='where', fn='h_where', params={}, args=[('d0', 'int'), ('d1', 'int')], budget_s=b, per_path_s=20))
  out.append(dict(name='where_none', fn='h_where_none', params={}, args=[('pick', 'int')], budget_s=b, per_path_s=20))
  return out


META = dict(
    rule='Shard = (decode/encode | iterate | random, template); symbolic: up to 8 decision values (validated by an '
         'independent predicate, decoded by an independent reference decoder), iteration index, RNG draws.',
    bounds=['templates: flat, cond (conditional sub-templates), deep3, typed (value-spec-bound fields), multi_d, multi_s, '
            'in_list, classes (object candidates incl. a subclass), floaty (floats k/4)', 'all valid DNAs of each template '
            '(closed path tree)', 'where filter: one template'],
    stubs=['pyglove decode/encode/iter run natively once the decisions are concrete; RNG = engine.chx.SymRandom'],
    outside_claim=['dynamic_evaluate / DynamicEvaluationContext', 'evolvable and custom hyper primitives', 'templates beyond the '
                   'family', 'candidates that are not pairwise distinguishable'],
    assumptions=[],
)
