"""C02 — schema-less pg.List / pg.Dict refine Python list / dict.

Differential harness: the same symbolic operation (concrete op kind per shard; symbolic
contents, indices, slice triples, values, argument lists) is applied to a pg container
and to a built-in one; results, exception class family, final contents/order and
read-back views must agree. One step from arbitrary contents is the induction step for
all histories (a schema-less flat container has no state besides its payload);
depth-2/3 shards cross-check hidden state. `_parse_slice` additionally gets a lemma with
unbounded ints against CPython's own slice.indices().
"""
import pyglove as pg
from engine.chx import Assume, Violation, reach

PROPERTY = 'C02'
LEVEL = 'model_checking'
MISSING = pg.MISSING_VALUE

LIST_OPS = ['append', 'insert', 'extend', 'pop', 'pop_i', 'remove', 'del_i', 'del_slice', 'set_i', 'set_slice',
            'get_i', 'get_slice', 'sort', 'sort_rev', 'reverse', 'clear', 'copy', 'add', 'mul', 'rmul', 'iadd', 'imul',
            'index', 'count', 'contains', 'rebind_1', 'rebind_2', 'rebind_append', 'rebind_insert', 'set_missing',
            'append_nested', 'set_nested', 'iter_len']
DICT_OPS = ['set', 'set_missing', 'del', 'get', 'getitem', 'pop', 'pop_default', 'popitem', 'setdefault', 'setdefault_none',
            'update', 'update_kw', 'ior', 'or', 'clear', 'copy', 'contains', 'rebind_1', 'rebind_2', 'rebind_del',
            'set_nested', 'views']
REACH_POINTS = ['list.rebind_long'] + ['list.' + o for o in LIST_OPS] + ['dict.' + o for o in DICT_OPS] + ['slice.lemma']

_ERR = (IndexError, KeyError, ValueError, TypeError)


def _fam(e):
  for c in (IndexError, KeyError, ValueError, TypeError):
    if isinstance(e, c):
      return c.__name__
  return type(e).__name__


def _concrete_list(xs, maxlen):
  """Python list of (symbolic) ints with a concrete length (forks on the length)."""
  n = len(xs)
  if n > maxlen:
    raise Assume()
  out = []
  for i in range(maxlen):
    if i < n:
      out.append(xs[i])
  return out


def _bound_idx(i, n, allow_none=False, slack=2):
  if i is None:
    if not allow_none:
      raise Assume()
    return None
  if not (-n - slack <= i <= n + slack):
    raise Assume()
  return i


def _bound_step(k):
  if k is None:
    return None
  if k == 0 or not -3 <= k <= 3:
    raise Assume()
  return k


def _both(f_ref, f_sut, ref, sut):
  r1 = e1 = r2 = e2 = None
  try:
    r1 = f_ref(ref)
  except _ERR as e:
    e1 = _fam(e)
  try:
    r2 = f_sut(sut)
  except _ERR as e:
    e2 = _fam(e)
  return r1, e1, r2, e2


def _plain(x):
  """pg containers -> plain ones (for comparing results)."""
  if isinstance(x, dict):
    return {k: _plain(v) for k, v in x.items()}
  if isinstance(x, list):
    return [_plain(v) for v in x]
  if isinstance(x, tuple):
    return tuple(_plain(v) for v in x)
  return x


def _check_list_views(tag, sut, ref):
  if len(sut) != len(ref):
    return Violation(f'{tag}:len', f'{list(sut)!r} vs {ref!r}')
  if _plain(list(sut)) != ref:
    return Violation(f'{tag}:contents', f'{list(sut)!r} vs {ref!r}')
  if not (sut == ref):
    return Violation(f'{tag}:eq_plain', f'{list(sut)!r} vs {ref!r}')
  if [x for x in sut] != list(sut):
    return Violation(f'{tag}:iter', '')
  if pg.to_json(sut) != _plain(ref):
    return Violation(f'{tag}:to_json', f'{pg.to_json(sut)!r} vs {ref!r}')
  for n, x in enumerate(sut):
    if isinstance(ref[n], (list, dict)) and not isinstance(x, (pg.List, pg.Dict)):
      return Violation(f'{tag}:nested_not_symbolic', repr(x))
  return None


def apply_list_op(op, sut, ref, i, j, k, v, ys, m, holder=None):
  """Applies one op to both; returns (violation-or-None). Augmented assignments rebind the name: the
  rebound object is what the history continues with (holder['sut'])."""
  n = len(ref)
  holder = holder if holder is not None else {}
  tag = f'list.{op}'
  reach(tag)
  if op == 'append':
    f = g = lambda x: x.append(v)
  elif op == 'insert':
    i = _bound_idx(i, n)
    f = g = lambda x: x.insert(i, v)
  elif op == 'extend':
    f = g = lambda x: x.extend(list(ys))
  elif op == 'pop':
    f = g = lambda x: x.pop()
  elif op == 'pop_i':
    i = _bound_idx(i, n)
    f = g = lambda x: x.pop(i)
  elif op == 'remove':
    f = g = lambda x: x.remove(v)
  elif op == 'del_i':
    i = _bound_idx(i, n)
    f = g = lambda x: x.__delitem__(i)
  elif op == 'del_slice':
    sl = slice(_bound_idx(i, n, True), _bound_idx(j, n, True), _bound_step(k))
    f = g = lambda x: x.__delitem__(sl)
  elif op == 'set_i':
    i = _bound_idx(i, n)
    f = g = lambda x: x.__setitem__(i, v)
  elif op == 'set_slice':
    sl = slice(_bound_idx(i, n, True), _bound_idx(j, n, True), _bound_step(k))
    f = g = lambda x: x.__setitem__(sl, list(ys))
  elif op == 'get_i':
    i = _bound_idx(i, n)
    f = g = lambda x: x[i]
  elif op == 'get_slice':
    sl = slice(_bound_idx(i, n, True), _bound_idx(j, n, True), _bound_step(k))
    f = g = lambda x: list(x[sl])
  elif op == 'sort':
    f = g = lambda x: x.sort()
  elif op == 'sort_rev':
    f = g = lambda x: x.sort(reverse=True)
  elif op == 'reverse':
    f = g = lambda x: x.reverse()
  elif op == 'clear':
    f = g = lambda x: x.clear()
  elif op == 'copy':
    f = g = lambda x: list(x.copy())
  elif op == 'add':
    f = g = lambda x: list(x + list(ys))
  elif op in ('mul', 'rmul', 'imul'):
    if not -1 <= m <= 3:
      raise Assume()
    if op == 'mul':
      f = g = lambda x: list(x * m)
    elif op == 'rmul':
      f = g = lambda x: list(m * x)
    else:
      def f(x):
        x *= m
        holder['new'] = x
        return list(x)
      g = f
  elif op == 'iadd':
    def f(x):
      x += list(ys)
      holder['new'] = x
      return list(x)
    g = f
  elif op == 'index':
    f = g = lambda x: x.index(v)
  elif op == 'count':
    f = g = lambda x: x.count(v)
  elif op == 'contains':
    f = g = lambda x: v in x
  elif op == 'iter_len':
    f = g = lambda x: (len(x), [e for e in x], list(reversed(x)), bool(x))
  elif op == 'rebind_1':
    # documented: rebind on an existing index replaces it.
    if i is None or not 0 <= i < n:
      raise Assume()
    f = lambda x: x.__setitem__(i, v)
    g = lambda x: (x.rebind({i: v}, raise_on_no_change=False), None)[1]
  elif op == 'rebind_2':
    if i is None or j is None or not (0 <= i < n and 0 <= j < n and i != j):
      raise Assume()
    def f(x):
      x[i] = v
      x[j] = m
    g = lambda x: (x.rebind({i: v, j: m}, raise_on_no_change=False), None)[1]
  elif op == 'rebind_append':
    # documented extension: rebinding an index past the end appends.
    if i is None or not n <= i <= n + 2:
      raise Assume()
    f = lambda x: x.append(v)
    g = lambda x: (x.rebind({i: v}), None)[1]
  elif op == 'rebind_insert':
    # documented extension: an insertion marker inserts.
    if i is None or not 0 <= i <= n:
      raise Assume()
    f = lambda x: x.insert(i, v)
    g = lambda x: (x.rebind({i: pg.Insertion(v)}), None)[1]
  elif op == 'set_missing':
    # documented extension: the missing-value marker deletes.
    if i is None or not 0 <= i < n:
      raise Assume()
    f = lambda x: x.__delitem__(i)
    g = lambda x: (x.rebind({i: MISSING}), None)[1]
  elif op == 'append_nested':
    f = lambda x: x.append([v, {'a': m}])
    g = lambda x: x.append([v, {'a': m}])
  elif op == 'set_nested':
    i = _bound_idx(i, n)
    f = g = lambda x: x.__setitem__(i, {'a': [v]})
  else:
    raise AssertionError(op)
  r1, e1, r2, e2 = _both(f, g, ref, sut)
  if e1 != e2:
    return Violation(f'{tag}:exception:{e1}->{e2}', f'ref raised {e1}, pg.List raised {e2}; contents {ref!r}')
  if _plain(r1) != _plain(r2):
    return Violation(f'{tag}:result', f'ref -> {r1!r}, pg.List -> {r2!r}')
  if op in ('imul', 'iadd') and e2 is None:
    sut = holder['new']          # f ran last on sut: holder holds the rebound pg object
    if not isinstance(sut, pg.List):
      return Violation(f'{tag}:not_symbolic_after_augmented_assignment', repr(type(sut)))
    holder['sut'] = sut
  return _check_list_views(tag, sut, ref)


_LIST_ARGS = [('xs', 'listint'), ('i', 'optint'), ('j', 'optint'), ('k', 'optint'), ('v', 'int'), ('ys', 'listint'),
              ('m', 'int')]


def h_list(params, xs, i, j, k, v, ys, m):
  xs = _concrete_list(xs, params['maxlen'])
  ys = _concrete_list(ys, params.get('maxarg', 2))
  sut, ref = pg.List(list(xs)), list(xs)
  return apply_list_op(params['op'], sut, ref, i, j, k, v, ys, m)


def h_list2(params, xs, i, j, k, v, ys, m, i2, j2, k2, v2, m2):
  """Two-step history (second op symbolic index into a list of ops)."""
  xs = _concrete_list(xs, params['maxlen'])
  ys = _concrete_list(ys, 1)
  sut, ref = pg.List(list(xs)), list(xs)
  holder = {}
  viol = apply_list_op(params['op'], sut, ref, i, j, k, v, ys, m, holder)
  if viol is not None:
    return None      # single-step divergences are reported by h_list; histories stop there
  return apply_list_op(params['op2'], holder.get('sut', sut), ref, i2, j2, k2, v2, ys, m2)


# --- slice lemma ---------------------------------------------------------------------

def h_slice_lemma(params, n, start, stop, step):
  """pg.List._parse_slice denotes the same index sequence as CPython for all ints/None."""
  if not 0 <= n <= params['maxlen']:
    raise Assume()
  if step is not None and step == 0:
    raise Assume()
  if params['sign'] > 0 and step is not None and step < 0:
    raise Assume()
  if params['sign'] < 0 and (step is None or step > 0):
    raise Assume()
  base = []
  for t in range(params['maxlen']):
    if t < n:
      base.append(t)
  sut = pg.List(base)
  reach('slice.lemma')
  a, b, c = sut._parse_slice(slice(start, stop, step))
  got = list(range(a, b, c))
  # CPython semantics (PySlice_AdjustIndices), written out over mathematical integers.
  st = 1 if step is None else step
  if st > 0:
    lo, hi = 0, n
    s0 = lo if start is None else (max(start + n, lo) if start < 0 else min(start, hi))
    e0 = hi if stop is None else (max(stop + n, lo) if stop < 0 else min(stop, hi))
  else:
    lo, hi = -1, n - 1
    s0 = hi if start is None else (max(start + n, lo) if start < 0 else min(start, hi))
    e0 = lo if stop is None else (max(stop + n, lo) if stop < 0 else min(stop, hi))
  want = []
  t = s0
  cnt = 0
  while (t < e0 if st > 0 else t > e0):
    want.append(t)
    t += st
    cnt += 1
    if cnt > params['maxlen']:
      break
  if got != want:
    return Violation('slice.lemma:index_sequence:' + ('pos' if params['sign'] > 0 else 'neg'),
                     f'n={n} slice=({start},{stop},{step}) got {got} want {want}')
  return None


# --- dict ------------------------------------------------------------------------------

KEYS = ['a', 'b', 0, 1, 'x.y']


def _mk_dict(bits, vals):
  d = {}
  for key, bit, val in zip(KEYS, bits, vals):
    if bit:
      d[key] = val
  return d


def _pick_key(ki):
  if not 0 <= ki < len(KEYS):
    raise Assume()
  return KEYS[ki]


def _check_dict_views(tag, sut, ref):
  if len(sut) != len(ref):
    return Violation(f'{tag}:len', f'{dict(sut)!r} vs {ref!r}')
  if list(sut.keys()) != list(ref.keys()):
    return Violation(f'{tag}:keys_order', f'{list(sut.keys())!r} vs {list(ref.keys())!r}')
  if _plain(list(sut.items())) != list(ref.items()):
    return Violation(f'{tag}:items', f'{list(sut.items())!r} vs {list(ref.items())!r}')
  if _plain(list(sut.values())) != list(ref.values()):
    return Violation(f'{tag}:values', '')
  if list(iter(sut)) != list(iter(ref)):
    return Violation(f'{tag}:iter', '')
  if not (sut == ref):
    return Violation(f'{tag}:eq_plain', f'{dict(sut)!r} vs {ref!r}')
  for key in KEYS:
    if (key in sut) != (key in ref):
      return Violation(f'{tag}:contains', repr(key))
  if pg.to_json(sut) != _plain(ref):
    return Violation(f'{tag}:to_json', f'{pg.to_json(sut)!r} vs {ref!r}')
  return None


def apply_dict_op(op, sut, ref, ki, kj, v, w, obits, ovals):
  tag = f'dict.{op}'
  reach(tag)
  key = _pick_key(ki)
  other = _mk_dict(obits, ovals)
  if op == 'set':
    f = g = lambda x: x.__setitem__(key, v)
  elif op == 'set_missing':
    # documented extension: assigning the missing-value marker deletes the key.
    f = lambda x: (x.pop(key, None), None)[1]
    g = lambda x: x.__setitem__(key, MISSING)
  elif op == 'del':
    f = g = lambda x: x.__delitem__(key)
  elif op == 'get':
    f = g = lambda x: x.get(key, w)
  elif op == 'getitem':
    f = g = lambda x: x[key]
  elif op == 'pop':
    f = g = lambda x: x.pop(key)
  elif op == 'pop_default':
    f = g = lambda x: x.pop(key, w)
  elif op == 'popitem':
    f = g = lambda x: x.popitem()
  elif op == 'setdefault':
    f = g = lambda x: x.setdefault(key, v)
  elif op == 'setdefault_none':
    f = g = lambda x: x.setdefault(key)
  elif op == 'update':
    f = g = lambda x: x.update(dict(other))
  elif op == 'update_kw':
    f = g = lambda x: x.update(a=v, b=w)
  elif op == 'ior':
    def f(x):
      x |= dict(other)
      return dict(x)
    g = f
  elif op == 'or':
    f = g = lambda x: dict(x | dict(other))
  elif op == 'clear':
    f = g = lambda x: x.clear()
  elif op == 'copy':
    f = g = lambda x: dict(x.copy())
  elif op == 'contains':
    f = g = lambda x: key in x
  elif op == 'views':
    f = g = lambda x: (len(x), list(x.keys()), list(x.values()), list(x.items()), bool(x))
  elif op == 'rebind_1':
    if key == 'x.y':
      raise Assume()        # rebind keys are paths by documentation
    f = lambda x: x.__setitem__(key, v)
    g = lambda x: (x.rebind({key: v}, raise_on_no_change=False), None)[1]
  elif op == 'rebind_2':
    k2 = _pick_key(kj)
    if key == 'x.y' or k2 == 'x.y' or key == k2:
      raise Assume()
    def f(x):
      x[key] = v
      x[k2] = w
    g = lambda x: (x.rebind({key: v, k2: w}, raise_on_no_change=False), None)[1]
  elif op == 'rebind_del':
    if key == 'x.y' or key not in ref:
      raise Assume()
    f = lambda x: x.__delitem__(key)
    g = lambda x: (x.rebind({key: MISSING}), None)[1]
  elif op == 'set_nested':
    f = g = lambda x: x.__setitem__(key, {'p': [v], 0: w})
  else:
    raise AssertionError(op)
  r1, e1, r2, e2 = _both(f, g, ref, sut)
  if e1 != e2:
    return Violation(f'{tag}:exception:{e1}->{e2}', f'ref raised {e1}, pg.Dict raised {e2}; contents {ref!r} key {key!r}')
  if _plain(r1) != _plain(r2):
    return Violation(f'{tag}:result', f'ref -> {r1!r}, pg.Dict -> {r2!r}; contents {ref!r} key {key!r}')
  return _check_dict_views(tag, sut, ref)


_DICT_ARGS = ([(f'p{t}', 'bool') for t in range(5)] + [(f'x{t}', 'optint') for t in range(5)] +
              [('ki', 'int'), ('kj', 'int'), ('v', 'optint'), ('w', 'int')] +
              [(f'q{t}', 'bool') for t in range(5)] + [(f'y{t}', 'int') for t in range(5)])


def h_dict(params, p0, p1, p2, p3, p4, x0, x1, x2, x3, x4, ki, kj, v, w, q0, q1, q2, q3, q4, y0, y1, y2, y3, y4):
  bits = (p0, p1, p2, p3, p4)
  if sum(1 for b in bits if b) > params['maxlen']:
    raise Assume()
  obits = (q0, q1, q2, q3, q4)
  if params['op'] not in USES_OTHER:
    obits = (False,) * 5
  elif sum(1 for b in obits if b) > params.get('maxarg', 2):
    raise Assume()
  ref = _mk_dict(bits, (x0, x1, x2, x3, x4))
  sut = pg.Dict(dict(ref))
  return apply_dict_op(params['op'], sut, ref, ki, kj, v, w, obits, (y0, y1, y2, y3, y4))


def h_dict2(params, p0, p1, p2, p3, p4, x0, x1, x2, x3, x4, ki, kj, v, w, q0, q1, q2, q3, q4, y0, y1, y2, y3, y4):
  """Two-step history: op, then op2 re-using swapped key selectors."""
  bits = (p0, p1, p2, p3, p4)
  if sum(1 for b in bits if b) > params['maxlen']:
    raise Assume()
  obits = (q0, q1, q2, q3, q4)
  if params['op'] not in USES_OTHER and params['op2'] not in USES_OTHER:
    obits = (False,) * 5
  elif sum(1 for b in obits if b) > 1:
    raise Assume()
  ref = _mk_dict(bits, (x0, x1, x2, x3, x4))
  sut = pg.Dict(dict(ref))
  if apply_dict_op(params['op'], sut, ref, ki, kj, v, w, obits, (y0, y1, y2, y3, y4)) is not None:
    return None
  return apply_dict_op(params['op2'], sut, ref, kj, ki, w, v, obits, (y0, y1, y2, y3, y4))


def h_rebind_long(params, i, j, ki, kj, third, k3):
  """Batched rebind on a list long enough for two-digit indices: the entries address the list as it was before the call
  (documented), whatever their textual order; reference = the same edits applied to a Python list from the highest index down."""
  from engine.chx import concretize, untraced
  n = params['n']
  # one-digit indices, the 9/10 boundary, two-digit indices, one past the end
  dom = [0, 1, 2, 9, 10, 11, 12]
  i, j = concretize(i, dom), concretize(j, dom)
  if i == j:
    raise Assume()
  ki, kj = concretize(ki, (0, 1, 2)), concretize(kj, (0, 1, 2))
  edits = {i: ki, j: kj}
  if params.get('third') is not None:
    edits[params['third']] = 0
  with untraced():
    ref = list(range(n))
    sut = pg.List(list(range(n)))
    updates = {}
    for idx, kind in edits.items():
      if kind == 2 and idx >= n:
        raise Assume()                 # nothing to delete there
      updates[idx] = [100 + idx, pg.Insertion(200 + idx), MISSING][kind]
    for idx in sorted(edits, reverse=True):
      kind = edits[idx]
      if kind == 0:
        if idx >= len(ref):
          ref.append(100 + idx)
        else:
          ref[idx] = 100 + idx
      elif kind == 1:
        ref.insert(idx, 200 + idx)
      else:
        del ref[idx]
    reach('list.rebind_long')
    try:
      sut.rebind(updates)
    except _ERR as e:
      return Violation('list.rebind_long:raises:' + _fam(e), f'{updates!r}: {e!r}'[:300])
    return _check_list_views('list.rebind_long', sut, ref)


USES_OTHER = {'update', 'ior', 'or'}
HEAVY_LIST = {'set_slice', 'get_slice', 'del_slice'}
CORE2 = ['append', 'insert', 'pop_i', 'set_i', 'del_i', 'reverse', 'sort', 'iadd', 'extend', 'rebind_insert', 'set_slice']
DCORE2 = ['set', 'del', 'pop', 'setdefault', 'update', 'popitem', 'set_missing', 'clear', 'ior']


def shards(tier, seed):
  quick = tier == 'quick'
  out = []
  for op in LIST_OPS:
    maxlen = 3 if (quick or op in HEAVY_LIST) else 4
    out.append(dict(name=f'list:{op}', fn='h_list', params=dict(op=op, maxlen=maxlen, maxarg=2 if quick else 3),
                    args=_LIST_ARGS, budget_s=45 if quick else 600, per_path_s=15))
  for third in (None, 5):
    out.append(dict(name=f'list:rebind_long:{third}', fn='h_rebind_long', params=dict(n=12, third=third),
                    args=[('i', 'int'), ('j', 'int'), ('ki', 'int'), ('kj', 'int'), ('third', 'bool'), ('k3', 'int')],
                    budget_s=120 if quick else 600, expect_s=30, per_path_s=15))
  for sign in (1, -1):
    out.append(dict(name=f'slice_lemma:{"pos" if sign > 0 else "neg"}', fn='h_slice_lemma',
                    params=dict(sign=sign, maxlen=4 if quick else 6),
                    args=[('n', 'int'), ('start', 'optint'), ('stop', 'optint'), ('step', 'optint')],
                    budget_s=60 if quick else 600, per_path_s=15))
  for op in DICT_OPS:
    out.append(dict(name=f'dict:{op}', fn='h_dict', params=dict(op=op, maxlen=3 if quick else 5, maxarg=2 if quick else 3),
                    args=_DICT_ARGS, budget_s=45 if quick else 600, per_path_s=15))
  import random as _r
  rnd = _r.Random(seed)
  pairs = [(a, b) for a in CORE2 for b in CORE2]
  dpairs = [(a, b) for a in DCORE2 for b in DCORE2]
  if quick:
    pairs = rnd.sample(pairs, 10)
    dpairs = rnd.sample(dpairs, 8)
  for a, b in pairs:
    out.append(dict(name=f'list2:{a}>{b}', fn='h_list2', params=dict(op=a, op2=b, maxlen=2),
                    args=_LIST_ARGS + [('i2', 'optint'), ('j2', 'optint'), ('k2', 'optint'), ('v2', 'int'), ('m2', 'int')],
                    budget_s=30 if quick else 300, per_path_s=15))
  for a, b in dpairs:
    out.append(dict(name=f'dict2:{a}>{b}', fn='h_dict2', params=dict(op=a, op2=b, maxlen=2), args=_DICT_ARGS,
                    budget_s=30 if quick else 300, per_path_s=15))
  return out


META = dict(
    rule='Shard = one list/dict operation kind (or an ordered pair for 2-step histories); symbolic: contents, '
         'indices, slice triple, values, argument list, multiplier, key selector, presence bits.',
    bounds=['list contents: symbolic ints, length <= 3 (quick) / 4 (thorough); argument lists length <= 2/3',
            'indices in [-len-2, len+2]; slice start/stop likewise or None; step in [-3,3] minus 0, or None',
            'multiplier in [-1,3]', 'dict keys from %r with symbolic presence bits (<= 3/5 present) and Optional[int] values' % KEYS,
            'slice lemma: start/stop/step unbounded Optional[int], len <= 4 (quick) / 6 (thorough)',
            'histories: depth 2 over core ops on length <= 2 (rotating sample in quick, all pairs in thorough)'],
    stubs=['CrossHair format() of symbolic non-str values returns "<sym>" (error-message text only)'],
    outside_claim=['keys other than str/int', 'sort(key=...) with user callables', 'contents beyond the length bounds',
                   'exception message texts (only the class family is compared)'],
    assumptions=['reference semantics = CPython built-in list/dict executed under the same symbolic engine'],
)
