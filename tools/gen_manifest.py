#!/usr/bin/env python3
"""Regenerates /verif/MANIFEST.json from the table below (developer tool)."""
import json
import os

VERIF = os.path.dirname(os.path.dirname(os.path.abspath(__file__)))

A = ('bounded symbolic execution of the real pyglove code (CrossHair 0.0.110 StateSpace driven by /verif/engine/chx.py, '
     'z3 deciding every branch); counterexamples are solver models replayed in a plain interpreter')
NOTE = ('Trusted: CrossHair\'s symbolic models of Python builtins, z3, the harness oracles. The verdict covers the stated '
        'bounds only (evidence.coverage.bounds); shards whose path tree did not close within the budget are reported '
        'INCOMPLETE and are not counted as discharged.')

CLAIMED = {
    'C16': ('symbolic thread schedules (preemption-bounded, statement granularity) over coroutine copies of the real '
            'backend/generator functions regenerated from /repo by an AST transform; violating schedules replayed on real '
            'threads over the untransformed code (CrossHair/z3 + engine B)', '§2.5, §3 C16',
            'The run lengths of the preempted segments, the first thread, per-trial actions, rewards and group assignment are '
            'solver variables; the quiescence invariant (ids 1..N once, one group per trial, one feedback per completed trial, '
            'consistent counters, maximal feasible best trial, shared study, same-group workers share the pending trial, no '
            'deadlock) is asserted; 2 threads with 1-2 preemptions in quick, more in thorough.'),
    'C12': ('symbolic selection of valid DNAs, view parameters, producing operations and all RNG outcomes; alignment with a '
            'DNA rebuilt from raw numbers (CrossHair/z3; operators run natively, every random draw is a solver decision)', '§3 C12',
            'Every view (dict under all key/value/multi-choice styles, flat and nested numbers, compact and verbose JSON) '
            'rebuilds an equal DNA; every DNA produced by iteration, random generation, parsing, cloning, JSON, Uniform/Swap '
            'mutation and crossovers is valid and bound node-by-node to the decision points of its own positions.'),
    'C13': ('symbolic DNA decisions validated by an independent predicate and decoded by an independent reference decoder; '
            'decode/encode/iterate of the real templates (CrossHair/z3)', '§3 C13',
            'For each template of the family and every valid DNA (closed path trees): no placeholder left, the decoded value '
            'equals the reference decoding, encode is the inverse, the template is untouched, decoding is repeatable, '
            'iteration yields space_size pairwise different values.'),
    'C14': ('symbolic populations, fitness orders and RNG outcomes through every shipped operator and 17 composed '
            'expressions (CrossHair/z3; operators run natively, every random draw is a solver decision)', '§3 C14',
            'Outputs are valid and aligned DNAs, selectors return members in the documented number, inputs (DNAs, metadata, '
            'population list) are untouched, seeded operators are deterministic under different global RNG states.'),
    'C15': ('symbolic crash point, missing-feedback count, rewards and persistence mode; uninterrupted vs recovered '
            'algorithm state and continuation (CrossHair/z3; algorithms run natively)', '§3 C15',
            'For 10 algorithm configurations and every crash point 0..N: counts, population with fitness, generation counter, '
            'de-duplication memory agree, and deterministic algorithms continue with the same proposals.'),
    'C20': ('symbolic execution of pg.to_html over values whose strings are built from symbolic metacharacter codes and '
            'symbolic view options; stdlib HTML tokenizer as oracle (CrossHair/z3)', '§3 C20',
            'Well-formedness, identical element/attribute structure to the same value rendered with harmless letters (no '
            'data-introduced markup), presence of keys and leaves, and no modification of the rendered value, for all '
            'strings up to the length bound and all option combinations in the bound.'),
    'C17': ('symbolic execution of nested scope programs over a registry of all thread-scoped context managers; reference '
            'nesting rules; observation from a second OS thread at every event (CrossHair/z3)', '§3 C17',
            'Manager choice, arguments, depth, exception and catch level are symbolic; effective values must follow the '
            'documented nesting rule at every point, everything must be restored after normal and exceptional exit, and a '
            'second thread must only ever see defaults.'),
    'C18': ('differential symbolic execution of functors / symbolized classes vs direct Python calls over symbolic call '
            'shapes (CrossHair/z3)', '§3 C18',
            'For 13 signatures and 3 classes, the number of positional arguments, keyword masks at construction and call time, '
            'override flag, later rebind/assignment and call-time overrides are symbolic; result or error kind must equal the '
            'direct call; reported arguments, generated signature, clone and JSON round trip must agree.'),
    'C19': ('z3 query over (ast node class x permission set) generated from the validator source + symbolic nesting/scope/'
            'fidelity checks through the real parse/evaluate (z3, CrossHair)', '§3 C19',
            'The gating table is re-extracted from /repo on every run and the negated property is decided by z3 for every '
            'ast node class; the context-free structure of the visitor is checked from source and every (context, construct, '
            'permission set) production goes through the real parser; scope stacks can only narrow; program templates '
            'agree with plain exec/eval.'),
    'C03': ('symbolic execution of every write path against typed containers with symbolic spec parameters and a typed object '
            'tree; reference schema predicate after every call (CrossHair/z3)', '§3 C03',
            'Typed pg.List/pg.Dict whose ranges and size bounds are unbounded symbolic integers, and an object tree covering the '
            'value-spec vocabulary, are hit by every mutator with symbolic arguments and value kinds (incl. pre-typed containers); '
            'an independent predicate over the declared schema must hold after every call, successful or failed.'),
    'C05': ('symbolic execution of to_json/from_json (object and string form), save/load histories on both file systems, '
            'record sequences, pickle/deepcopy (CrossHair/z3)', '§3 C05',
            'Value skeletons with symbolic leaves and selector-chosen strings/floats round-trip to an equal, same-typed, '
            'well-formed value; symbolic 3-step save histories over tricky paths obey last-write-wins on the in-memory and '
            'standard file systems.'),
    'C10': ('symbolic execution of KeyPath parse/format/arithmetic/ordering, traverse/flatten/canonicalize, KeyPathSet vs '
            'Python sets (CrossHair/z3)', '§3 C10',
            'Key kinds, characters and integers are symbolic (format stub off); path arithmetic is compared with tuple '
            'arithmetic; KeyPathSet operations with symbolic membership bits are compared with Python sets, including aliasing.'),
    'C01': ('symbolic execution of one mutating/copying operation from every skeleton tree + depth-2 histories; tree-integrity '
            'invariant (CrossHair/z3)', '§3 C01',
            'Every operation of the list/dict/object/rebind/copy surface is applied at a symbolic node of constructor-built '
            'skeleton trees with symbolic index/key, inserted-value kind (fresh, plain, existing node, foreign node); afterwards '
            'every reachable node must have the storing container as parent, its true path, be found by that path, appear once, '
            'and removed nodes must be detached. One inductive step plus depth-2 histories.'),
    'C07': ('symbolic execution of clone/copy/deepcopy then one mutation on either side (CrossHair/z3)', '§3 C07',
            'Clone kind, cloned node, flags, enclosing scoped overrides and a follow-up mutation are symbolic; fidelity (equal, '
            'class, flags, spec, own tree, no shared symbolic node, leaf sharing rule) and non-interference are asserted.'),
    'C08': ('symbolic execution of every mutator under symbolic seal/accessor flags and nested scopes vs a reference permission '
            'function (CrossHair/z3)', '§3 C08',
            'Protected node, target node, per-object flags and two nested scopes per manager are symbolic; a refused write '
            'must raise WritePermissionError and leave the tree bit-identical, an allowed one must not be refused.'),
    'C09': ('symbolic execution of mutators with recording subscribers; event log vs before/after snapshots; derived facts vs a '
            'fresh deep clone (CrossHair/z3)', '§3 C09',
            'Exactly-once, ancestors-only, bottom-up delivery, truthful payload, nothing when disabled; memoised facts equal a '
            'fresh computation after each mutation.'),
    'C02': ('differential symbolic execution vs built-in list/dict + unbounded-int slice lemma (CrossHair/z3)', '§3 C02',
            'Every list/dict API operation is applied to a pg container and a built-in one with symbolic contents, indices, '
            'slice triples and arguments; results, exception class, contents and all read-back views must agree. One '
            'inductive step from arbitrary contents plus depth-2 histories; slice normalisation is checked for unbounded ints.'),
    'C04': ('symbolic execution of value-spec apply/is_compatible/extend with unbounded integer parameters (CrossHair/z3)',
            '§3 C04',
            'Specs are built by the real constructors from symbolic ranges/sizes/flags; three lemmas (apply idempotence, '
            'compatibility containment, extension narrowing) are asserted over symbolic candidate values. Numeric '
            'parameters are unbounded mathematical integers; skeleton shapes and container lengths are bounded.'),
    'C06': ('symbolic execution of pg.eq/ne/hash/lt/gt over shape pairs and triples (CrossHair/z3)', '§3 C06',
            'All unordered pairs of 24 value shapes and mutually comparable triples with symbolic leaf integers: reflexive, '
            'symmetric, ne, hash, trichotomy, transitivity, sorting never raises.'),
    'C11': ('symbolic execution of geno validate/next_dna/random_dna vs a reference validity predicate; successor lemma '
            '(CrossHair/z3)', '§3 C11',
            'Symbolic DNA decision values over a family of DNASpec skeletons: validate/bind accept exactly the reference '
            'valid set; first/next satisfy the successor lemma (which by induction gives exact enumeration); the size '
            'recurrence equals the defining sum for symbolic sub-space sizes; every RNG outcome is a solver variable.'),
}

NOT_YET = {}


def main():
  props = [json.loads(l) for l in open(os.path.join(VERIF, 'properties.jsonl'))]
  checks, na = [], []
  for p in props:
    pid = p['id']
    if pid in CLAIMED:
      tech, ref, text = CLAIMED[pid]
      checks.append(dict(
          property_id=pid,
          quick_cmd=f'./check {pid} --tier quick',
          thorough_cmd=f'./check {pid} --tier thorough',
          evidence_file=f'evidence/{pid}.json',
          replay_cmd_template=f'./check {pid} --replay {{path}}',
          engine={'C19': 'chx+z3q', 'C16': 'chx+engineB'}.get(pid, 'chx'),
          level_claimed=dict(category='model_checking', text=text + ' Bounded: nothing is claimed outside the bounds.',
                             design_ref=ref),
          level_note=NOTE,
          technique=tech))
    else:
      na.append(dict(property_id=pid, reason=NOT_YET.get(pid, 'harness not built yet in this phase of the work; '
                                                        'planned under DESIGN.md §3 (no check registered, nothing claimed)')))
  man = dict(
      version=1,
      setup_cmd='./setup.sh',
      hooks=dict(guard='PYGLOVE_VERIF', enable='no hooks: checks import /repo as is',
                 baseline_off_cmd='cd /repo && /venv/bin/python -m pytest -ra -q -p no:cacheprovider --timeout=900 '
                                  '--continue-on-collection-errors',
                 source_commits=[], add_only=True),
      engines=[dict(name='chx', path='engine/chx.py', serves_properties=sorted(CLAIMED), kind_free_text=A),
               dict(name='engineB', path='engine/yieldify.py', serves_properties=['C16'],
                    kind_free_text='AST transform of the real functions into statement-granular coroutines + preemption-bounded '
                                   'scheduler with solver-chosen run lengths (engine/sched.py) + real-thread replay (engine/trace_replay.py)'),
               dict(name='z3q', path='harness/c19_coding.py', serves_properties=['C19'],
                    kind_free_text='direct z3 query generated from the AST of _CodeValidator.generic_visit')],
      checks=checks,
      notes='Known findings and repaired defects are listed in known_findings.txt; see DESIGN.md.',
      not_applicable=na)
  with open(os.path.join(VERIF, 'MANIFEST.json'), 'w') as f:
    json.dump(man, f, indent=1)
  print('claimed', len(checks), 'not_applicable', len(na))


if __name__ == '__main__':
  main()
