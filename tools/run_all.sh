#!/bin/bash
# usage: tools/run_all.sh quick|thorough  -> runs every check in sequence, one summary line each (developer tool)
TIER=${1:-quick}
cd "$(dirname "$0")/.."
for i in 01 02 03 04 05 06 07 08 09 10 11 12 13 14 15 16 17 18 19 20; do
  s=$(date +%s)
  ./check C$i --tier $TIER > /tmp/all_${TIER}_C$i.log 2>&1
  rc=$?
  echo "C$i $TIER exit=$rc wall=$(( $(date +%s) - s ))s $(grep -c '^VIOLATION' /tmp/all_${TIER}_C$i.log) violations $(grep -c HARNESS-ERROR /tmp/all_${TIER}_C$i.log) errors | $(tail -1 /tmp/all_${TIER}_C$i.log | cut -c1-90)"
done
