#!/bin/bash
# usage: tools/run_seeded.sh <ID> <variant-dir> [tier]
# Applies a seeded change to a scratch worktree of /repo's HEAD (never to /repo), runs the check against it
# (VERIF_REPO), removes the worktree. Evidence/replays of such runs go to a scratch copy of /verif outputs.
ID=$1; DIR=$(cd "$2" && pwd); TIER=${3:-quick}
NAME=$(basename $(dirname $DIR))_$(basename $DIR)
WT=/tmp/seedwt/$NAME.$$
mkdir -p /tmp/seedwt
git -C /repo worktree add -q --detach "$WT" HEAD || exit 9
cd "$WT"
if ! git apply "$DIR/patch.diff" 2>/dev/null; then
  patch -p1 -s --no-backup-if-mismatch < "$DIR/patch.diff" || { echo "seeded $ID $NAME: PATCH-FAILED"; cd /; git -C /repo worktree remove --force "$WT"; exit 8; }
fi
OUT=/tmp/seedwt/out.$NAME.$$; mkdir -p $OUT
cd /verif
VERIF_REPO="$WT" VERIF_OUT="$OUT" timeout 3600 ./check "$ID" --tier "$TIER" > "/tmp/seeded_${ID}_${NAME}.log" 2>&1
rc=$?
git -C /repo worktree remove --force "$WT"; rm -rf "$OUT"
echo "seeded $ID $NAME: exit=$rc $(grep -c '^VIOLATION' /tmp/seeded_${ID}_${NAME}.log) violation line(s)"
grep -E "counterexample|HARNESS-ERROR" "/tmp/seeded_${ID}_${NAME}.log" | cut -c1-260 | head -6
exit $rc
