#!/bin/bash
# usage: tools/run_seeded.sh <ID> <variant-dir> [tier]   — apply a seeded change to /repo, run the check, undo.
ID=$1; DIR=$2; TIER=${3:-quick}
cd /repo || exit 9
if [ -n "$(git status --porcelain -- pyglove)" ]; then echo "repo dirty"; exit 9; fi
if ! git apply "$DIR/patch.diff" 2>/dev/null; then
  patch -p1 -s --no-backup-if-mismatch < "$DIR/patch.diff" || { echo "PATCH-FAILED"; git checkout -- .; exit 8; }
fi
cd /verif
timeout 3600 ./check "$ID" --tier "$TIER" > "/tmp/seeded_${ID}_$(basename $DIR).log" 2>&1
rc=$?
git -C /repo checkout -- . ; git -C /repo clean -fdq -- pyglove
echo "seeded $ID $(basename $DIR): exit=$rc $(grep -c '^VIOLATION' /tmp/seeded_${ID}_$(basename $DIR).log) violation line(s)"
grep -E "^VIOLATION|counterexample|HARNESS-ERROR" "/tmp/seeded_${ID}_$(basename $DIR).log" | cut -c1-300 | head -8
git -C /verif checkout -- evidence 2>/dev/null
exit $rc
