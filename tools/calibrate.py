#!/usr/bin/env python3
"""Developer tool: derive /verif/calibration.json from the evidence of a full quick pass.

For every quick shard it records how many paths the reference run explored and whether the path tree closed. The quick
tier then bounds each shard by *paths* (deterministic: CrossHair's search order is seeded) instead of by CPU time, so
that the same shards close on every run whatever the load: a shard that closed gets 1.5x its path count (+50), a shard
that did not close stops exactly where the reference run stopped. CPU budgets stay as a safety net (3x the reference).
Re-run after changing a harness: tools/run_all.sh quick && tools/calibrate.py
"""
import json, os, sys
V = os.path.dirname(os.path.dirname(os.path.abspath(__file__)))
out = {}
for i in range(1, 21):
  pid = f'C{i:02d}'
  p = os.path.join(V, 'evidence', pid + '.json')
  if not os.path.exists(p):
    continue
  e = json.load(open(p))
  if e.get('tier') != 'quick':
    print(f'{pid}: evidence is not from a quick run - skipped', file=sys.stderr)
    continue
  ent = {}
  for s in e['coverage']['shards']:
    if 'paths' in s and 'cpu_s' in s:
      ent[s['name']] = dict(paths=s['paths'], closed=bool(s.get('closed')), cpu_s=s['cpu_s'])
  out[pid] = ent
json.dump(out, open(os.path.join(V, 'calibration.json'), 'w'), indent=0, sort_keys=True)
print('calibrated', {k: len(v) for k, v in out.items()})
