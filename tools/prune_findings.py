"""Developer tool: drop `known:` entries whose committed witness no longer reproduces (prints what it drops)."""
import json, sys
sys.path.insert(0, '/verif')
from engine import main as M
out, seen = [], set()
for l in open('/verif/known_findings.txt').read().splitlines():
  if l.startswith('known: '):
    parts = l[7:].split(' :: ')
    head = dict(kv.split('=', 1) for kv in parts[0].split(' '))
    w = json.loads(parts[2][len('witness='):])
    rs, _ = M.replay_witness(w)
    key = (head['property'], head['sig'])
    if rs != head['sig'] or key in seen:
      print('drop', key, '->', rs)
      continue
    seen.add(key)
  out.append(l)
open('/verif/known_findings.txt', 'w').write('\n'.join(out) + '\n')
