#!/bin/bash
# usage: tools/confirm_seeded.sh <ID> <variant-dir>  -> one line verdict; confirms a seeded change on a scratch worktree of /repo HEAD:
# applies, demo FAILs with it, existing suite unchanged (only the 3 pre-existing environment failures), demo PASSes without it.
ID=$1; DIR=$(cd "$2" && pwd); NAME=${ID}_$(basename $DIR)
WT=/tmp/seedwt/confirm.$NAME.$$
mkdir -p /tmp/seedwt
git -C /repo worktree add -q --detach "$WT" HEAD || exit 9
cd "$WT"
PYTHONPATH="$WT" timeout 600 /venv/bin/python "$DIR/demo.py" > /tmp/confirm_$NAME.clean.log 2>&1; clean_rc=$?
if ! git apply "$DIR/patch.diff" 2>/dev/null; then
  patch -p1 -s --no-backup-if-mismatch < "$DIR/patch.diff" > /dev/null 2>&1 || { echo "$NAME: PATCH-FAILED"; cd /; git -C /repo worktree remove --force "$WT"; exit 8; }
fi
PYTHONPATH="$WT" timeout 600 /venv/bin/python "$DIR/demo.py" > /tmp/confirm_$NAME.mut.log 2>&1; mut_rc=$?
PYTHONPATH="$WT" timeout 1500 /venv/bin/python -m pytest -q -p no:cacheprovider --timeout=900 pyglove > /tmp/confirm_$NAME.suite.log 2>&1
summary=$(tail -1 /tmp/confirm_$NAME.suite.log)
failed=$(grep -c "^FAILED" /tmp/confirm_$NAME.suite.log)
cd /; git -C /repo worktree remove --force "$WT"
echo "$NAME: demo_clean_exit=$clean_rc demo_mutant_exit=$mut_rc suite_failed=$failed suite='$summary'"
