"""Engine A: symbolic execution of pyglove's real code with z3 (via CrossHair's StateSpace).

Own exploration loop (no `crosshair check`, no contract enforcement): one `StateSpace`
per path over a shared `RootNode`; z3 decides every branch on a symbolic value; a
harness returns None (holds) or a `Violation`; `Assume` discards a path. A shard is
closed ("EXHAUSTED") when CrossHair's path tree reports exhaustion with no UNKNOWN
path; otherwise it is INCOMPLETE. Nothing here samples: the only values ever chosen
are solver models of path conditions.
"""
import functools
import os
import random
import sys
import time
import traceback
from time import process_time
from typing import Any, Callable, Dict, List, Optional, Tuple

import z3

from crosshair.core_and_libs import proxy_for_type, NoTracing, ResumedTracing
from crosshair.core import Patched, deep_realize, realize, python_type, CrossHairValue
import crosshair.core as chcore
from crosshair.libimpl import builtinslib as bl
from crosshair.statespace import (StateSpace, StateSpaceContext, RootNode, CallAnalysis,
                                  VerificationStatus, context_statespace)
from crosshair.tracers import COMPOSITE_TRACER, is_tracing
from crosshair.util import UnexploredPath, IgnoreAttempt, CrossHairInternal


class Assume(Exception):
  """Raised by a harness to discard a path (precondition not met)."""


class Violation:
  """Returned by a harness when the property's assertion fails on this path."""

  def __init__(self, sig: str, detail: str = ''):
    self.sig = sig
    self.detail = detail

  def __repr__(self):
    return f'Violation({self.sig!r}, {self.detail!r})'


# ----------------------------------------------------------------------------------
# Reach points (vacuity guard): harness code calls reach('name') where a clause of the
# property is actually exercised. Counted per shard.
REACH: Dict[str, int] = {}


def reach(name: str) -> None:
  if is_tracing():
    with NoTracing():
      REACH[name] = REACH.get(name, 0) + 1
  else:
    REACH[name] = REACH.get(name, 0) + 1


# ----------------------------------------------------------------------------------
# Solver accounting: every z3 check issued by CrossHair goes through Solver.check.
SOLVER = {'queries': 0, 'seconds': 0.0}
_orig_check = z3.Solver.check


def _counting_check(self, *a, **k):
  t0 = time.perf_counter()
  try:
    return _orig_check(self, *a, **k)
  finally:
    SOLVER['queries'] += 1
    SOLVER['seconds'] += time.perf_counter() - t0


z3.Solver.check = _counting_check

# ----------------------------------------------------------------------------------
# Checker-side robustness patches (none of these touches pyglove).

_orig_format = bl._format
FORMAT_STUB = {'on': True}


def _format(obj, format_spec=''):
  """Error-message formatting must not realize symbolic numbers (DESIGN §1.2)."""
  if FORMAT_STUB['on']:
    with NoTracing():
      if isinstance(obj, CrossHairValue) and not isinstance(obj, bl.AnySymbolicStr):
        return '<sym>'
  return _orig_format(obj, format_spec)


chcore._PATCH_REGISTRATIONS[format] = _format


def _safe_checked_self(pytype, method_name, native_method):
  def with_checked_self(self, *a, **kw):
    with NoTracing():
      if hasattr(type(self), '__ch_pytype__'):
        if python_type(self) is pytype:
          bound_method = getattr(self, method_name)
          with ResumedTracing():
            return bound_method(*a, **kw)
    return native_method(self, *a, **kw)
  functools.update_wrapper(with_checked_self, native_method)
  return with_checked_self


for _ent, _p in list(chcore._PATCH_REGISTRATIONS.items()):
  if getattr(_p, '__code__', None) is not None and _p.__code__.co_name == 'with_checked_self':
    _cells = dict(zip(_p.__code__.co_freevars, [c.cell_contents for c in _p.__closure__]))
    chcore._PATCH_REGISTRATIONS[_ent] = _safe_checked_self(
        _cells['pytype'], _cells['method_name'], _cells['native_method'])


# ----------------------------------------------------------------------------------
# Symbolic RNG: every draw is a fresh bounded symbolic int. In replay, the recorded
# draws are fed back through the same class.

FLOAT_RES = 4   # random() returns k/FLOAT_RES, k symbolic in [0, FLOAT_RES)


class SymRandom(random.Random):
  """random.Random whose outcomes are solver variables (symbolic mode) or a script."""

  def __new__(cls, *a, **k):
    return super().__new__(cls, 0)

  def __init__(self, script: Optional[List[int]] = None):
    super().__init__(0)
    self.script = list(script) if script is not None else None
    self.draws: List[Any] = []
    self._n = 0

  def _draw(self, cap: int) -> int:
    if self.script is not None:
      if self._n >= len(self.script):
        v = 0
      else:
        v = self.script[self._n] % cap if cap > 0 else 0
    elif is_tracing():
      with NoTracing():
        v = proxy_for_type(int, f'rnd{self._n}')
      if not (0 <= v < cap):
        raise IgnoreAttempt('rng draw out of range')
    else:
      # Called from natively executing code (inside `untraced()`): the outcome is still a solver
      # decision -- a fresh symbolic int, made concrete by branching on each admissible value.
      v = proxy_for_type(int, f'rnd{self._n}')
      with ResumedTracing():
        picked = None
        for c in range(cap):
          if v == c:
            picked = c
            break
        if picked is None:
          raise IgnoreAttempt('rng draw out of range')
      v = picked
    self._n += 1
    self.draws.append(v)
    return v

  def _randbelow(self, cap: int) -> int:
    return self._draw(cap)

  def getrandbits(self, k: int) -> int:
    return self._draw(1 << k)

  def random(self) -> float:
    return self._draw(FLOAT_RES) / FLOAT_RES

  def seed(self, *a, **k):
    pass

  def __reduce__(self):
    return (SymRandom, (list(self.script) if self.script is not None else list(self.draws),))

  def __repr__(self):
    return f'SymRandom(script={self.script if self.script is not None else self.draws!r})'

  def __deepcopy__(self, memo):
    return self

  def __copy__(self):
    return self


# ----------------------------------------------------------------------------------


def _make_arg(name: str, typ: Any):
  if typ is SymRandom:
    return SymRandom()
  return proxy_for_type(typ, name)


def _realize_args(args):
  out = []
  for a in args:
    if isinstance(a, SymRandom):
      out.append(SymRandom(script=[int(x) for x in deep_realize(a.draws)]))
    else:
      out.append(deep_realize(a))
  return out


def explore(fn: Callable, params: Dict[str, Any], argspec: List[Tuple[str, Any]],
            budget_s: float = 60.0, per_path_s: float = 10.0, max_paths: int = 1000000,
            sample_every: int = 25, max_samples: int = 12, max_viol_per_sig: int = 2,
            format_stub: bool = True, stop_on_violation: bool = False) -> Dict[str, Any]:
  """Close the path tree of fn(params, *symbolic args) within the budget."""
  FORMAT_STUB['on'] = format_stub
  REACH.clear()
  SOLVER['queries'] = 0
  SOLVER['seconds'] = 0.0
  root = RootNode()
  stats = dict(paths=0, confirmed=0, unknown=0, ignored=0, violated=0)
  decisions = 0
  violations: Dict[str, List[Dict[str, Any]]] = {}
  samples: List[Any] = []
  unknown_reasons: Dict[str, int] = {}
  ignored_reasons: Dict[str, int] = {}
  exhausted = False
  t0 = process_time()
  w0 = time.time()
  with Patched():
    # the budget is CPU time; on an oversubscribed machine the wall-clock guard ends the shard (as INCOMPLETE) instead
    while stats['paths'] < max_paths and process_time() - t0 < budget_s and time.time() - w0 < budget_s * 4 + 60:
      stats['paths'] += 1
      start = process_time()
      space = StateSpace(execution_deadline=start + per_path_s,
                         model_check_timeout=per_path_s / 2, search_root=root)
      want_sample = (len(samples) < max_samples and
                     (stats['confirmed'] < 3 or stats['confirmed'] % sample_every == 0))
      status = 'ignored'
      try:
        with StateSpaceContext(space), COMPOSITE_TRACER, NoTracing():
          args = [_make_arg(n, t) for n, t in argspec]
          space.checkpoint()
          try:
            with ResumedTracing():
              ret = fn(params, *args)
            if isinstance(ret, Violation):
              with ResumedTracing():
                space.detach_path()
              concrete = _realize_args(args)
              sig = ret.sig
              lst = violations.setdefault(sig, [])
              if len(lst) < max_viol_per_sig:
                lst.append(dict(sig=sig, detail=str(ret.detail)[:600], args=concrete))
              status = 'violated'
            elif ret is None or ret is True:
              status = 'confirmed'
              if want_sample:
                with ResumedTracing():
                  space.detach_path()
                samples.append(_realize_args(args))
            else:
              raise CrossHairInternal(f'harness returned {ret!r}')
          except Assume:
            status = 'ignored'
            ignored_reasons['Assume'] = ignored_reasons.get('Assume', 0) + 1
          except (UnexploredPath, IgnoreAttempt, CrossHairInternal):
            raise
          except Exception as e:  # harness let an exception escape: that is a violation
            with ResumedTracing():
              space.detach_path(e)
            concrete = _realize_args(args)
            tb = traceback.extract_tb(e.__traceback__)
            where = ''
            for fr in reversed(tb):
              if '/pyglove/' in fr.filename:
                where = f'{os.path.basename(fr.filename)}:{fr.name}'
                break
            sig = f'uncaught:{type(e).__name__}:{where}'
            lst = violations.setdefault(sig, [])
            if len(lst) < max_viol_per_sig:
              lst.append(dict(sig=sig, detail=(repr(e)[:300] + ' | ' +
                                               ''.join(traceback.format_tb(e.__traceback__)[-3:])[:600]),
                              args=concrete))
            status = 'violated'
      except UnexploredPath as e:
        status = 'unknown'
        k = type(e).__name__
        unknown_reasons[k] = unknown_reasons.get(k, 0) + 1
      except IgnoreAttempt as e:
        status = 'ignored'
        k = 'IgnoreAttempt:' + str(e)[:60]
        ignored_reasons[k] = ignored_reasons.get(k, 0) + 1
      decisions += len(space.choices_made)
      stats[status] += 1
      if status == 'unknown':
        analysis = CallAnalysis(VerificationStatus.UNKNOWN)
      elif status == 'ignored':
        analysis = CallAnalysis()
      else:
        # violated paths are closed paths too: exploration continues so that other,
        # different violations are still found; the verdict is tracked separately.
        analysis = CallAnalysis(VerificationStatus.CONFIRMED)
      _, exhausted = space.bubble_status(analysis)
      if exhausted:
        break
      if stop_on_violation and violations:
        break
  closed = bool(exhausted and stats['unknown'] == 0)
  return dict(
      closed=closed, exhausted=bool(exhausted), violations=violations, samples=samples,
      decisions=decisions, reach=dict(REACH), unknown_reasons=unknown_reasons, ignored_reasons=ignored_reasons,
      solver_queries=SOLVER['queries'], solver_s=round(SOLVER['seconds'], 3),
      cpu_s=round(process_time() - t0, 2), wall_s=round(time.time() - w0, 2), **stats)


def run_concrete(fn: Callable, params: Dict[str, Any], args: List[Any]):
  """Plain-interpreter execution of a harness on concrete arguments (no CrossHair)."""
  args = [SymRandom(script=list(a.draws) if a.script is None else a.script)
          if isinstance(a, SymRandom) else a for a in args]
  try:
    ret = fn(params, *args)
  except Assume:
    return 'assume', ''
  except Exception as e:  # pylint: disable=broad-except
    tb = traceback.extract_tb(e.__traceback__)
    where = ''
    for fr in reversed(tb):
      if '/pyglove/' in fr.filename:
        where = f'{os.path.basename(fr.filename)}:{fr.name}'
        break
    return f'uncaught:{type(e).__name__}:{where}', repr(e)[:300]
  if isinstance(ret, Violation):
    return ret.sig, str(ret.detail)[:600]
  return 'ok', ''


import contextlib


def untraced():
  """Context manager: run a block without symbolic tracing (for work that involves no symbolic value)."""
  if is_tracing():
    return NoTracing()
  return contextlib.nullcontext()


def concretize(x, candidates):
  """Concrete value equal to the symbolic x, chosen by solver branching over the candidates.
  Sorted integer candidates are bisected (log2 decisions per path instead of a linear chain)."""
  cands = list(candidates)
  if cands and all(isinstance(c, int) and not isinstance(c, bool) for c in cands) and cands == sorted(set(cands)):
    lo, hi = 0, len(cands)
    if x < cands[0] or x > cands[-1]:
      raise Assume()
    while hi - lo > 1:
      mid = (lo + hi) // 2
      if x < cands[mid]:
        hi = mid
      else:
        lo = mid
    if x == cands[lo]:
      return cands[lo]
    raise Assume()
  for c in cands:
    if x == c:
      return c
  raise Assume()
