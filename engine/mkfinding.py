"""Helper (developer tool, not used by checks): turn a replay file into a known_findings.txt line."""
import json, sys
d = json.load(open(sys.argv[1]))
text = sys.argv[2]
w = dict(module=d['module'], fn=d['fn'], params=d['params'], args_b64=d['args_b64'], args_repr=d['args_repr'][:200])
print(f"known: property={d['property']} sig={d['sig']} :: {text} :: witness={json.dumps(w)}")
