"""Entry point: ./check <ID> --tier quick|thorough | --replay <path>.

Exit codes: 0 = property held on everything explored (only listed known findings seen);
1 = replayed, unlisted violation (prints `VIOLATION property=<id> replay=<path>`);
3 = harness/engine error (vacuous harness, non-reproducing counterexample, crash).
"""
import argparse
import base64
import fnmatch
import importlib
import json
import multiprocessing as mp
import os
import pickle
import signal
import subprocess
import sys
import time
import traceback
import typing
from typing import Any, Dict, List, Optional

VERIF = os.path.dirname(os.path.dirname(os.path.abspath(__file__)))
sys.path.insert(0, VERIF)
REPO = os.environ.get('VERIF_REPO', '/repo')     # seeded-change runs point this at a scratch worktree
if REPO in sys.path:
  sys.path.remove(REPO)
sys.path.insert(0, REPO)

HARNESS = {
    'C01': 'harness.c01_tree', 'C02': 'harness.c02_listdict', 'C03': 'harness.c03_schema',
    'C04': 'harness.c04_specs', 'C05': 'harness.c05_serial', 'C06': 'harness.c06_eqorder',
    'C07': 'harness.c07_clone', 'C08': 'harness.c08_seal', 'C09': 'harness.c09_notify',
    'C10': 'harness.c10_paths', 'C11': 'harness.c11_geno', 'C12': 'harness.c12_dnaviews',
    'C13': 'harness.c13_hyper', 'C14': 'harness.c14_evolution', 'C15': 'harness.c15_recover',
    'C16': 'harness.c16_concurrent', 'C17': 'harness.c17_scopes', 'C18': 'harness.c18_callables',
    'C19': 'harness.c19_coding', 'C20': 'harness.c20_html',
}

EXIT_OK, EXIT_VIOLATION, EXIT_ERROR = 0, 1, 3


def _types():
  from engine import chx
  return {
      'int': int, 'bool': bool, 'str': str, 'float': float,
      'optint': Optional[int], 'listint': List[int], 'rng': chx.SymRandom,
      'optbool': Optional[bool], 'liststr': List[str], 'optfloat': Optional[float],
      'listbool': List[bool], 'listoptint': List[Optional[int]],
  }


def b64(obj) -> str:
  return base64.b64encode(pickle.dumps(obj)).decode()


def unb64(s: str):
  return pickle.loads(base64.b64decode(s))


# ------------------------------------------------------------------------------------
# Shard worker (runs in a forked pool process).

class _HardTimeout(BaseException):
  pass


def _alarm(signum, frame):
  raise _HardTimeout()


def _profile_functions(fn, params, args):
  """Qualified names of pyglove functions entered while running fn concretely."""
  from engine import chx
  seen = set()

  def prof(frame, event, arg):
    if event == 'call':
      co = frame.f_code
      f = co.co_filename
      if '/pyglove/' in f and not f.endswith('_test.py'):
        seen.add(frame.f_globals.get('__name__', '?') + '.' + getattr(co, 'co_qualname', co.co_name))
  sys.setprofile(prof)
  try:
    out = chx.run_concrete(fn, params, args)
  finally:
    sys.setprofile(None)
  return out, seen


def run_shard(job: Dict[str, Any]) -> Dict[str, Any]:
  from engine import chx
  shard = job['shard']
  t0 = time.time()
  res: Dict[str, Any] = dict(name=shard['name'], fn=shard['fn'], params=shard.get('params', {}),
                             allow_vacuous=bool(shard.get('allow_vacuous')))
  try:
    mod = importlib.import_module(job['module'])
    fn = getattr(mod, shard['fn'])
    types = _types()
    argspec = [(n, types[t]) for n, t in shard['args']]
    signal.signal(signal.SIGALRM, _alarm)
    signal.alarm(int(shard.get('budget_s', 60) * 6 + 300))
    try:
      r = chx.explore(fn, shard.get('params', {}), argspec,
                      budget_s=shard.get('budget_s', 60), per_path_s=shard.get('per_path_s', 10),
                      format_stub=shard.get('format_stub', True),
                      max_paths=shard.get('max_paths', 1000000))
    finally:
      signal.alarm(0)
    res.update(r)
    # faithfulness guard: solver witnesses of closed paths re-run without CrossHair.
    validated, mismatches, funcs = 0, [], set()
    for i, a in enumerate(r['samples']):
      if i < 3:
        (sig, detail), seen = _profile_functions(fn, shard.get('params', {}), a)
        funcs |= seen
      else:
        sig, detail = chx.run_concrete(fn, shard.get('params', {}), a)
      if sig == 'ok':
        validated += 1
      else:
        mismatches.append(dict(args=repr(a)[:300], concrete=sig, detail=detail))
    res['validated'] = validated
    res['mismatches'] = mismatches
    res['functions'] = sorted(funcs)
    res['samples'] = [repr(a)[:400] for a in r['samples'][:4]]
    # replay every violation witness in a fresh plain interpreter.
    flat = [v for lst in r['violations'].values() for v in lst]
    res['violations'] = []
    if flat:
      payload = b64(dict(module=job['module'], fn=shard['fn'], params=shard.get('params', {}),
                         argsets=[v['args'] for v in flat]))
      p = subprocess.run([sys.executable, '-m', 'engine.replay', '--batch'], input=payload,
                         capture_output=True, text=True, cwd=VERIF, timeout=600)
      try:
        outs = json.loads(p.stdout.strip().splitlines()[-1])
      except Exception:  # pylint: disable=broad-except
        outs = [['replay-crash', (p.stderr or '')[-400:]]] * len(flat)
      for v, (rsig, rdetail) in zip(flat, outs):
        res['violations'].append(dict(
            sig=v['sig'], detail=v['detail'], args_repr=repr(v['args'])[:500], args_b64=b64(v['args']),
            replay_sig=rsig, replay_detail=rdetail))
  except _HardTimeout:
    res['error'] = 'hard-timeout'
  except BaseException as e:  # pylint: disable=broad-except
    res['error'] = f'{type(e).__name__}: {e}\n' + traceback.format_exc()[-1500:]
  res['shard_wall_s'] = round(time.time() - t0, 2)
  return res


# ------------------------------------------------------------------------------------
# Known findings (committed file; never written at run time).

def load_findings(prop: str):
  path = os.path.join(VERIF, 'known_findings.txt')
  known, fixed = [], []
  if not os.path.exists(path):
    return known, fixed
  for line in open(path, encoding='utf-8'):
    line = line.rstrip('\n')
    if not line or line.startswith('#'):
      continue
    if line.startswith('known: '):
      body = line[len('known: '):]
      parts = body.split(' :: ')
      head = dict(kv.split('=', 1) for kv in parts[0].split(' '))
      if head.get('property') != prop:
        continue
      ent = dict(property=prop, sig=head['sig'], text=parts[1] if len(parts) > 1 else '')
      if len(parts) > 2 and parts[2].startswith('witness='):
        ent['witness'] = json.loads(parts[2][len('witness='):])
      known.append(ent)
    elif line.startswith('fixed: '):
      if f'property={prop} ' in line:
        fixed.append(line)
  return known, fixed


def _sig_match(sig: str, listed) -> bool:
  """A listed signature names one failing call site; `*` stands for the parts of the signature that do not
  belong to the defect (e.g. which index-shifting list operation ran inside notify_on_change(False))."""
  return any(sig == k or ('*' in k and fnmatch.fnmatchcase(sig, k)) for k in listed)


def replay_witness(w: Dict[str, Any]):
  payload = b64(dict(module=w['module'], fn=w['fn'], params=w.get('params', {}),
                     argsets=[unb64(w['args_b64'])]))
  p = subprocess.run([sys.executable, '-m', 'engine.replay', '--batch'], input=payload,
                     capture_output=True, text=True, cwd=VERIF, timeout=600)
  try:
    return json.loads(p.stdout.strip().splitlines()[-1])[0]
  except Exception:  # pylint: disable=broad-except
    return ['replay-crash', (p.stderr or '')[-400:]]


# ------------------------------------------------------------------------------------

def main(argv=None) -> int:
  ap = argparse.ArgumentParser()
  ap.add_argument('prop')
  ap.add_argument('--tier', default=os.environ.get('VERIF_TIER', 'quick'), choices=['quick', 'thorough'])
  ap.add_argument('--replay')
  ap.add_argument('--only', help='substring filter on shard names (debugging; evidence not written)')
  ap.add_argument('--jobs', type=int, default=int(os.environ.get('VERIF_JOBS', '16')))
  a = ap.parse_args(argv)
  prop = a.prop.upper()
  seed = int(os.environ.get('VERIF_SEED', '0') or 0)

  if a.replay:
    from engine import replay as rp
    return rp.replay_file(a.replay)

  t0 = time.time()
  modname = HARNESS[prop]
  mod = importlib.import_module(modname)
  if hasattr(mod, 'main'):      # engines B / C have their own drivers
    return mod.main(a.tier, seed)
  shards = mod.shards(a.tier, seed)
  if a.only:
    shards = [s for s in shards if a.only in s['name']]
  # quick tier: bound every shard by paths (deterministic) from the committed calibration of a reference run
  calibrated = 0
  if a.tier == 'quick' and not os.environ.get('VERIF_NO_CALIBRATION'):
    try:
      cal = json.load(open(os.path.join(VERIF, 'calibration.json'))).get(prop, {})
    except Exception:  # pylint: disable=broad-except
      cal = {}
    for s in shards:
      c = cal.get(s['name'])
      if not c:
        continue
      calibrated += 1
      s['max_paths'] = int(c['paths'] * 1.5) + 50 if c['closed'] else int(c['paths'])
      s['expect_s'] = max(1.0, float(c['cpu_s']))
      s['budget_s'] = max(float(s.get('budget_s', 60)), 3.0 * float(c['cpu_s']) + 10)
    if calibrated:
      print(f'note: {calibrated}/{len(shards)} shards bounded by the path counts of calibration.json', flush=True)
  # size the tier by total wall time: shard budgets are scaled down if their sum exceeds the wall cap
  cap = float(os.environ.get('VERIF_WALL_S', '900' if a.tier == 'thorough' else '240'))
  # (a shard that declares expect_s - the CPU time it needs to close - is sized by that; its budget_s is only the point
  # where it is given up as INCOMPLETE, and it is not scaled unless the expected times themselves exceed the cap)
  if a.tier == 'thorough':
    for s in shards:
      s.pop('expect_s', None)        # (thorough shards are sized by their nominal budgets: the wall cap is a hard bound)
  total = sum(s.get('expect_s', s.get('budget_s', 60)) for s in shards)
  allowed = cap * max(1, min(a.jobs, len(shards) or 1)) * 0.85
  extra_evidence = {}
  if a.tier == 'thorough' and total > allowed * 4 and not a.only:
    # The thorough families are larger than the wall cap at a useful depth: rather than shrinking every budget below
    # a quarter of its nominal value, this run takes every quick-tier shard plus a seed-rotated sample of the rest
    # (other seeds / a larger VERIF_WALL_S take the others); what was not selected is recorded in the evidence.
    import random as _random
    quick_names = {s['name'] for s in mod.shards('quick', seed)}
    first = [s for s in shards if s['name'] in quick_names]
    rest = [s for s in shards if s['name'] not in quick_names]
    _random.Random(seed).shuffle(rest)
    chosen, acc = list(first), sum(s.get('expect_s', s.get('budget_s', 60)) for s in first)
    for s in rest:
      c = s.get('expect_s', s.get('budget_s', 60))
      if acc + c > allowed * 4:
        continue
      chosen.append(s)
      acc += c
    skipped = [s['name'] for s in shards if s not in chosen]
    print(f'note: thorough: {len(chosen)} of {len(shards)} shards selected for seed {seed} within the {cap:.0f}s wall cap '
          f'({len(skipped)} rotate in with other seeds or a larger VERIF_WALL_S)', flush=True)
    extra_evidence['shards_not_selected_this_seed'] = dict(count=len(skipped), examples=skipped[:40])
    shards = chosen
    total = sum(s.get('expect_s', s.get('budget_s', 60)) for s in shards)
  if total > allowed:
    f = allowed / total
    for s in shards:
      if 'max_paths' not in s:
        s['budget_s'] = max(5.0, s.get('budget_s', 60) * f)
    print(f'note: shard budgets scaled by {f:.2f} to fit the {cap:.0f}s wall cap of the {a.tier} tier', flush=True)
  known, fixed = load_findings(prop)

  # 1. listed known findings: replay the committed witness against the current tree.
  for k in known:
    if 'witness' in k:
      rsig, _ = replay_witness(k['witness'])
      if _sig_match(rsig, [k['sig']]):
        print(f'KNOWN-FINDING: property={prop} [{k["sig"]}] {k["text"]}', flush=True)
      else:
        print(f'note: listed finding {k["sig"]} does not reproduce on this tree (replay: {rsig})', flush=True)
  known_sigs = {k['sig'] for k in known}

  # 2. run all shards.
  # longest first (a long shard started last would set the wall time of the whole run)
  jobs = [dict(module=modname, shard=s) for s in sorted(shards, key=lambda s: -float(s.get('expect_s', s.get('budget_s', 60))))]
  results: List[Dict[str, Any]] = []
  ctx = mp.get_context('fork')
  nproc = max(1, min(a.jobs, len(jobs)))
  with ctx.Pool(nproc, maxtasksperchild=8) as pool:
    for r in pool.imap_unordered(run_shard, jobs):
      results.append(r)
      tag = 'ERROR' if r.get('error') else ('CLOSED' if r.get('closed') else 'INCOMPLETE')
      nv = len(r.get('violations', []))
      print(f'  shard {r["name"]}: {tag} paths={r.get("paths")} confirmed={r.get("confirmed")} '
            f'unknown={r.get("unknown")} viol={nv} cpu={r.get("cpu_s")}s', flush=True)
  # 2b. direct solver queries (Engine C) contributed by the harness module, replayed like any other witness.
  if hasattr(mod, 'pre') and not a.only:
    for pr in mod.pre(a.tier, seed):
      viols = []
      for c in pr.pop('counterexamples', []):
        payload = b64(dict(module=modname, fn=c['fn'], params=c.get('params', {}), argsets=[c['args']]))
        p = subprocess.run([sys.executable, '-m', 'engine.replay', '--batch'], input=payload,
                           capture_output=True, text=True, cwd=VERIF, timeout=600)
        try:
          rsig, rdetail = json.loads(p.stdout.strip().splitlines()[-1])[0]
        except Exception:  # pylint: disable=broad-except
          rsig, rdetail = 'replay-crash', (p.stderr or '')[-400:]
        viols.append(dict(fn=c['fn'], params=c.get('params', {}), sig=c['sig'], detail=c.get('detail', ''),
                          args_repr=repr(c['args']), args_b64=b64(c['args']),
                          replay_sig=rsig, replay_detail=rdetail))
      pr['violations'] = viols
      pr.setdefault('fn', viols[0]['sig'] if False else pr.get('fn', 'z3'))
      pr.setdefault('params', {})
      results.append(pr)
      print(f'  query {pr["name"]}: {"CLOSED" if pr.get("closed") else "INCOMPLETE"} solver_queries={pr.get("solver_queries")} '
            f'models={len(viols)} solver_s={pr.get("solver_s")}', flush=True)
  results.sort(key=lambda r: r['name'])

  # 3. triage.
  errors: List[str] = []
  new_violations: List[Dict[str, Any]] = []
  known_seen: Dict[str, int] = {}
  for r in results:
    if r.get('error'):
      errors.append(f'shard {r["name"]} crashed: {r["error"][:800]}')
      continue
    if r.get('confirmed', 0) + r.get('violated', 0) == 0 and not r.get('allow_vacuous'):
      if r.get('closed'):
        errors.append(f'shard {r["name"]} is vacuous: no path reached the end of the harness '
                      f'(paths={r.get("paths")}, ignored={r.get("ignored")}, unknown={r.get("unknown")})')
      else:
        # an unfinished shard whose budget ran out before any path completed decides nothing (and is reported as
        # incomplete); the reach-point guard below still requires every assertion site to be reached by some shard
        print(f'note: shard {r["name"]} ran out of budget before completing a path (paths={r.get("paths")})', flush=True)
    for m in r.get('mismatches', []):
      errors.append(f'shard {r["name"]}: faithfulness mismatch: symbolic path held, concrete re-run gave '
                    f'{m["concrete"]} on {m["args"]} ({m["detail"]})')
    for v in r.get('violations', []):
      rs = v['replay_sig']
      if rs in ('ok', 'assume', 'replay-crash'):
        errors.append(f'shard {r["name"]}: counterexample {v["sig"]} did not reproduce in a plain '
                      f'interpreter (replay: {rs} {v["replay_detail"]}) args={v["args_repr"]}')
        continue
      if _sig_match(rs, known_sigs):
        known_seen[rs] = known_seen.get(rs, 0) + 1
        continue
      new_violations.append(dict(shard=r['name'], fn=v.get('fn', r['fn']), params=v.get('params', r['params']),
                                 **{k: v[k] for k in v if k not in ('fn', 'params')}))
  reach_total: Dict[str, int] = {}
  for r in results:
    for k, n in (r.get('reach') or {}).items():
      reach_total[k] = reach_total.get(k, 0) + n
  if not a.only:
    for rp_name in getattr(mod, 'REACH_POINTS', []):
      if reach_total.get(rp_name, 0) == 0:
        errors.append(f'vacuity: reach point {rp_name!r} was never reached by any path')

  # 4. replay files + VIOLATION lines (one per distinct signature).
  exit_code = EXIT_OK
  seen_sigs = set()
  rdir = os.path.join(os.environ.get('VERIF_OUT', VERIF), 'replays', prop)
  if os.path.isdir(rdir) and not a.only:
    import shutil
    shutil.rmtree(rdir, ignore_errors=True)
  for v in new_violations:
    if v['replay_sig'] in seen_sigs:
      continue
    seen_sigs.add(v['replay_sig'])
    os.makedirs(rdir, exist_ok=True)
    safe = ''.join(c if c.isalnum() else '_' for c in v['replay_sig'])[:80]
    path = os.path.join(rdir, f'{safe}.json')
    with open(path, 'w') as f:
      json.dump(dict(property=prop, module=modname, fn=v['fn'], params=v['params'], args_b64=v['args_b64'],
                     args_repr=v['args_repr'], sig=v['replay_sig'], detail=v['replay_detail'],
                     shard=v['shard']), f, indent=1)
    print(f'  counterexample [{v["replay_sig"]}] {v["replay_detail"][:300]} args={v["args_repr"][:300]}')
    print(f'VIOLATION property={prop} replay={path}', flush=True)
    exit_code = EXIT_VIOLATION
  for e in errors:
    print('HARNESS-ERROR: ' + e, flush=True)
  if errors and exit_code == EXIT_OK:
    exit_code = EXIT_ERROR

  # 5. evidence.
  if not a.only:
    from engine import evidence
    evidence.write(prop, a.tier, seed, mod, results, known_seen, fixed, new_violations, errors,
                   reach_total, time.time() - t0, extra=extra_evidence or None)
  closed = sum(1 for r in results if r.get('closed'))
  print(f'{prop} {a.tier}: shards={len(results)} closed={closed} '
        f'paths={sum(r.get("paths", 0) for r in results)} known_seen={sorted(known_seen)} '
        f'new_violations={len(seen_sigs)} errors={len(errors)} wall={time.time() - t0:.1f}s exit={exit_code}')
  return exit_code


if __name__ == '__main__':
  sys.exit(main())
