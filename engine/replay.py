"""Concrete replay of harness witnesses in a plain interpreter (CrossHair is never active).

`--batch` reads a base64 pickle {module, fn, params, argsets} on stdin and prints one JSON
line [[sig, detail], ...]. `replay_file(path)` replays a /verif/replays/<id>/<n>.json file.
"""
import base64
import importlib
import json
import os
import pickle
import sys

VERIF = os.path.dirname(os.path.dirname(os.path.abspath(__file__)))
if VERIF not in sys.path:
  sys.path.insert(0, VERIF)
REPO = os.environ.get('VERIF_REPO', '/repo')     # seeded-change runs point this at a scratch worktree
if REPO in sys.path:
  sys.path.remove(REPO)
sys.path.insert(0, REPO)


def _run(module, fn, params, argsets):
  from engine import chx
  mod = importlib.import_module(module)
  f = getattr(mod, fn)
  out = []
  for args in argsets:
    sig, detail = chx.run_concrete(f, params, args)
    out.append([sig, detail])
  return out


def replay_file(path: str) -> int:
  d = json.load(open(path))
  args = pickle.loads(base64.b64decode(d['args_b64']))
  (sig, detail), = _run(d['module'], d['fn'], d['params'], [args])
  print(f'replay {path}: harness={d["module"]}.{d["fn"]} params={d["params"]} args={args!r}')
  print(f'  recorded: {d["sig"]}')
  print(f'  now:      {sig} {detail}')
  if sig not in ('ok', 'assume'):
    print(f'VIOLATION property={d["property"]} replay={path}')
    return 1
  return 0


if __name__ == '__main__':
  if '--batch' in sys.argv:
    d = pickle.loads(base64.b64decode(sys.stdin.read()))
    res = _run(d['module'], d['fn'], d['params'], d['argsets'])
    print(json.dumps(res))
  else:
    sys.exit(replay_file(sys.argv[1]))
