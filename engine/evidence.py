"""Writes /verif/evidence/<id>.json from what a run actually did (EVIDENCE.schema.json)."""
import hashlib
import json
import os
import subprocess

VERIF = os.path.dirname(os.path.dirname(os.path.abspath(__file__)))


def _repo_state():
  try:
    head = subprocess.run(['git', '-C', os.environ.get('VERIF_REPO', '/repo'), 'rev-parse', '--short', 'HEAD'],
                          capture_output=True, text=True).stdout.strip()
    dirty = subprocess.run(['git', '-C', os.environ.get('VERIF_REPO', '/repo'), 'status', '--porcelain', '--', 'pyglove'],
                           capture_output=True, text=True).stdout.strip()
    return head + ('+dirty' if dirty else '')
  except Exception:  # pylint: disable=broad-except
    return 'unknown'


def write(prop, tier, seed, mod, results, known_seen, fixed, new_violations, errors, reach_total,
          wall_s, extra=None):
  meta = getattr(mod, 'META', {})
  paths = sum(r.get('paths', 0) for r in results)
  confirmed = sum(r.get('confirmed', 0) for r in results)
  closed = [r for r in results if r.get('closed')]
  incomplete = [r['name'] for r in results if not r.get('closed')]
  functions = sorted({f for r in results for f in r.get('functions', [])})
  samples = []
  for r in results:
    for s in r.get('samples', [])[:1]:
      samples.append(dict(shard=r['name'], harness=r.get('fn'), params=r.get('params'), solver_witness=s,
                          verdict='holds'))
    if len(samples) >= 12:
      break
  for v in new_violations[:5]:
    samples.append(dict(shard=v['shard'], harness=v['fn'], params=v['params'], solver_witness=v['args_repr'],
                        verdict='VIOLATION ' + v['replay_sig']))
  if not samples:
    samples = [dict(note='no path completed')]
  # distinct non-trivial = closed paths that ran the harness to its end, counted per shard
  # (paths of one shard are pairwise-disjoint path conditions by construction of the tree).
  distinct = confirmed + sum(r.get('violated', 0) for r in results)
  cov = dict(
      states=paths,
      transitions=sum(r.get('decisions', 0) for r in results),
      traces_validated_against_impl=sum(r.get('validated', 0) for r in results),
      samples=samples,
      evaluations=paths,
      distinct_nontrivial=distinct,
      rule=('one evaluation = one symbolic execution path of the harness over the real pyglove code, '
            'its branch decisions taken by z3; paths of a shard have pairwise disjoint path conditions; '
            'non-trivial = ran to the end of the harness (precondition satisfied, oracle evaluated). '
            + meta.get('rule', '')),
      obligations=len(results),
      discharged=len([r for r in closed if not any(
          v['replay_sig'] not in known_seen for v in r.get('violations', []))]),
      exhaustive=(len(incomplete) == 0 and not errors),
      incomplete_shards=incomplete,
      paths_confirmed=confirmed,
      paths_precondition_rejected=sum(r.get('ignored', 0) for r in results),
      paths_unknown=sum(r.get('unknown', 0) for r in results),
      unknown_reasons={k: sum((r.get('unknown_reasons') or {}).get(k, 0) for r in results)
                       for k in {k for r in results for k in (r.get('unknown_reasons') or {})}},
      solver='z3 %s via CrossHair 0.0.110 StateSpace' % _z3v(),
      solver_queries=sum(r.get('solver_queries', 0) for r in results),
      solver_s=round(sum(r.get('solver_s', 0) for r in results), 2),
      cpu_s=round(sum(r.get('cpu_s', 0) for r in results), 1),
      functions_encoded=functions,
      functions_encoded_note='pyglove functions entered when solver witnesses of closed paths were re-run '
                             'under sys.setprofile (measured, first 3 witnesses per shard)',
      reach_points=reach_total,
      bounds=meta.get('bounds', []),
      stubs=meta.get('stubs', []),
      outside_claim=meta.get('outside_claim', []),
      known_findings_seen=known_seen,
      fixed_entries=fixed,
      harness_errors=errors[:20],
      repo_state=_repo_state(),
      shards=[dict(name=r['name'], closed=bool(r.get('closed')), paths=r.get('paths', 0),
                   confirmed=r.get('confirmed', 0), ignored=r.get('ignored', 0), unknown=r.get('unknown', 0),
                   violated=r.get('violated', 0), cpu_s=r.get('cpu_s'), solver_queries=r.get('solver_queries'),
                   error=(r.get('error') or '')[:200]) for r in results],
  )
  if extra:
    cov.update(extra)
  ev = dict(
      property_id=prop, tier=tier, seed=seed, level=getattr(mod, 'LEVEL', 'model_checking'),
      coverage=cov,
      assumptions=meta.get('assumptions', []) + [
          'CrossHair 0.0.110 symbolic semantics of Python builtins and z3 are trusted',
          'the claim covers only the stated bounds; INCOMPLETE shards are not counted as discharged'],
      wall_s=round(wall_s, 2),
      violations=len({v['replay_sig'] for v in new_violations}),
  )
  outdir = os.environ.get('VERIF_OUT', VERIF)
  os.makedirs(os.path.join(outdir, 'evidence'), exist_ok=True)
  with open(os.path.join(outdir, 'evidence', f'{prop}.json'), 'w') as f:
    json.dump(ev, f, indent=1, default=str)


def _z3v():
  import z3
  return z3.get_version_string()
