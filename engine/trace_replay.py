"""Engine B, part 3: replay a (tid, file, line) schedule on real threads over the UNTRANSFORMED code.

Each logical thread becomes a real `threading.Thread`; a `sys.settrace` line tracer gates every
scheduled line: a thread may execute its next scheduled line only when all earlier events of the
schedule have been consumed. Lines that are not the thread's next scheduled event run free.
"""
import linecache
import sys
import threading


class Replayer:

  def __init__(self, schedule, files, timeout=10.0):
    self.schedule = [tuple(e) for e in schedule]      # [(tid, file, lineno)]
    self.pos = 0
    self.files = set(files)
    self.cv = threading.Condition()
    self.diverged = None
    self.timeout = timeout
    self.errors = {}
    self.done = set()

  def _next_for(self, tid):
    for i in range(self.pos, len(self.schedule)):
      if self.schedule[i][0] == tid:
        return i
    return None

  def _skip_done(self):
    while self.pos < len(self.schedule) and self.schedule[self.pos][0] in self.done:
      self.pos += 1
    return True

  def gate(self, tid, filename, lineno):
    """A schedule event (t, L) means: thread t has arrived at line L (the coroutine yielded before the
    statement). The statement itself runs when t is scheduled again, i.e. right before t's next event. So
    the real thread (1) waits for its turn to *arrive*, records the event, and (2) is held at L until every
    event up to its own next one has been recorded."""
    with self.cv:
      i = self._next_for(tid)
      if i is None or (self.schedule[i][1], self.schedule[i][2]) != (filename, lineno):
        return
      ok = self.cv.wait_for(lambda: self._skip_done() and (self.pos >= i or self.diverged is not None), timeout=self.timeout)
      if not ok and self.diverged is None:
        self.diverged = f'thread {tid} waited to arrive at event #{i} {self.schedule[i]} while the schedule is at #{self.pos}'
      self.pos = max(self.pos, i + 1)
      self.cv.notify_all()
      j = None
      for k in range(i + 1, len(self.schedule)):
        if self.schedule[k][0] == tid:
          j = k
          break
      if j is None:
        return          # no later event of this thread: it runs to completion
      ok = self.cv.wait_for(lambda: self._skip_done() and (self.pos >= j or self.diverged is not None), timeout=self.timeout)
      if not ok and self.diverged is None:
        self.diverged = f'thread {tid} held at event #{i} {self.schedule[i]} waiting for #{j}; schedule is at #{self.pos}'

  def _tracer(self, tid):
    def local(frame, event, arg):
      if event == 'line':
        self.gate(tid, frame.f_code.co_filename, frame.f_lineno)
      return local

    def glob(frame, event, arg):
      if event == 'call' and frame.f_code.co_filename in self.files:
        return local
      return None
    return glob

  def run(self, bodies):
    threads = []
    for tid, body in enumerate(bodies):
      def target(tid=tid, body=body):
        sys.settrace(self._tracer(tid))
        try:
          body()
        except BaseException as e:  # pylint: disable=broad-except
          self.errors[tid] = e
        finally:
          sys.settrace(None)
          with self.cv:
            # this thread's unconsumed events are skipped so that the others are not stuck behind them
            self.done.add(tid)
            self._skip_done()
            self.cv.notify_all()
      threads.append(threading.Thread(target=target, daemon=True))
    for th in threads:
      th.start()
    for th in threads:
      th.join(self.timeout * 3)
    alive = [i for i, th in enumerate(threads) if th.is_alive()]
    if alive and self.diverged is None:
      self.diverged = f'threads {alive} did not finish'
    return self.diverged is None
