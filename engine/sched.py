"""Engine B, part 2: preemption-bounded scheduler over yieldified logical threads.

A schedule is a list of run lengths: segment j lets thread (first + j) % n execute `runlens[j]`
statements (fewer if it blocks on a lock or finishes); afterwards the threads run to
completion one after another (switching only when the running one blocks). The run lengths are
solver variables; a concrete schedule yields a trace [(tid, file, line), ...] that
engine.trace_replay re-executes on real threads over the untransformed code.
"""


class Deadlock(Exception):
  pass


CUR = [0]


def current_tid():
  return CUR[0]


def run(make_threads, runlens, first=0, max_steps=20000):
  """make_threads() -> list of generators. Returns (trace, exceptions per thread)."""
  gens = make_threads()
  n = len(gens)
  alive = set(range(n))
  trace = []
  errors = {}
  steps = [0]

  def step(t):
    """Advance thread t by one scheduling point. Returns 'ran' | 'blocked' | 'done'."""
    CUR[0] = t
    steps[0] += 1
    if steps[0] > max_steps:
      raise Deadlock('step limit exceeded (livelock?)')
    try:
      ev = next(gens[t])
    except StopIteration:
      alive.discard(t)
      return 'done'
    except BaseException as e:   # pylint: disable=broad-except
      if type(e).__name__ in ('Assume', 'IgnoreAttempt', 'UnexploredPath'):
        raise
      alive.discard(t)
      errors[t] = e
      return 'done'
    if ev[0] == 'blocked':
      return 'blocked'
    trace.append((t, ev[1], ev[2]))
    return 'ran'

  exact = True
  for j, length in enumerate(runlens):
    t = (first + j) % n
    k = 0
    while k < length and t in alive:
      r = step(t)
      if r != 'ran':
        break
      k += 1
    if k < length:
      exact = False          # canonical form: a segment longer than what the thread can run is redundant
  # run to completion, switching only on block
  order = [(first + len(runlens) + d) % n for d in range(n)]
  guard = 0
  while alive:
    progressed = False
    for t in order:
      while t in alive:
        r = step(t)
        if r == 'ran':
          progressed = True
          continue
        if r == 'done':
          progressed = True
        break
    guard += 1
    if not progressed:
      raise Deadlock(f'all of threads {sorted(alive)} are blocked')
  return trace, errors, exact
