"""Engine B, part 1: turn real methods into statement-granular coroutines (AST transform).

The *real source* of each function is re-read from /repo on every run and transformed
mechanically: a `yield ('line', file, lineno)` before every statement, `yield from` around
calls whose callee name is on a whitelist (transformed callees are generators), and
`with <lock>:` rewritten into a cooperative acquire / try / finally release on a `VLock`.
Python's own semantics then run the transformed code; nothing about pyglove is re-modelled.
"""
import ast
import copy
import inspect
import textwrap


class VLock:
  """Cooperative lock (documented contract of threading.Lock: mutual exclusion, no reentrancy)."""

  def __init__(self):
    self.owner = None

  def vacquire(self, tid):
    while self.owner is not None:
      yield ('blocked', self)
    self.owner = tid

  def vrelease(self):
    self.owner = None

  # used by code that was not transformed (runs atomically within one scheduler step)
  def __enter__(self):
    assert self.owner is None, 'VLock used re-entrantly from untransformed code'
    self.owner = -1

  def __exit__(self, *a):
    self.owner = None


_VP_CODES = set()


def _vp_call(f, *a, **k):
  r = f(*a, **k)
  # a generator produced by a transformed function (possibly through an untransformed closure such as
  # `next_dna`) is a logical-thread continuation: run it with scheduling points.
  while inspect.isgenerator(r) and (r.gi_code in _VP_CODES or getattr(f, '__vp__', False)):
    r = yield from r
  return r


class VPStopIteration(Exception):
  """Stands in for StopIteration inside transformed code (PEP 479 turns a StopIteration raised in a
  generator into RuntimeError; the original functions are not generators)."""


class _T(ast.NodeTransformer):

  def __init__(self, names, filename):
    self.names = names
    self.filename = filename

  def visit_Call(self, node):
    self.generic_visit(node)
    fn = node.func
    if isinstance(fn, ast.Name) and fn.id == 'super' and not node.args:
      # zero-argument super() needs the class cell of the original definition
      return ast.Call(func=fn, args=[ast.Name('__vp_cls', ast.Load()), ast.Name('self', ast.Load())], keywords=[])
    name = fn.attr if isinstance(fn, ast.Attribute) else (fn.id if isinstance(fn, ast.Name) else None)
    if name in self.names:
      return ast.YieldFrom(value=ast.Call(func=ast.Name('__vp_call', ast.Load()), args=[node.func] + node.args,
                                          keywords=node.keywords))
    return node

  def visit_Lambda(self, node):
    return node

  def visit_Name(self, node):
    if node.id == 'StopIteration':
      return ast.copy_location(ast.Name('__vp_StopIteration', node.ctx), node)
    return node

  def visit_ExceptHandler(self, node):
    # `except StopIteration` also catches the stand-in; real StopIteration from untransformed callees still matches
    self.generic_visit(node)
    if isinstance(node.type, ast.Name) and node.type.id == '__vp_StopIteration':
      node.type = ast.Tuple([ast.Name('__vp_StopIteration', ast.Load()), ast.Name('__vp_RealStopIteration', ast.Load())], ast.Load())
    return node

  def _stmts(self, body):
    out = []
    for s in body:
      if isinstance(s, (ast.FunctionDef, ast.ClassDef, ast.AsyncFunctionDef)):
        out.append(s)          # nested definitions run atomically when called
        continue
      if isinstance(s, (ast.Global, ast.Nonlocal)) or (isinstance(s, ast.Expr) and isinstance(s.value, ast.Constant)):
        out.append(s)          # docstrings / declarations execute nothing (and produce no line event)
        continue
      s2 = self.visit(s)
      y = ast.Expr(ast.Yield(ast.Tuple([ast.Constant('line'), ast.Constant(self.filename), ast.Constant(s.lineno)], ast.Load())))
      out.append(ast.copy_location(y, s))
      out.extend(s2 if isinstance(s2, list) else [s2])
    return out

  def visit_FunctionDef(self, node):
    if getattr(node, '_vp_top', False):
      node.body = self._stmts(node.body)
    return node

  def visit_If(self, node):
    node.test = self.visit(node.test)
    node.body = self._stmts(node.body)
    node.orelse = self._stmts(node.orelse)
    return node

  def visit_For(self, node):
    node.iter = self.visit(node.iter)
    node.body = self._stmts(node.body)
    node.orelse = self._stmts(node.orelse)
    return node

  def visit_While(self, node):
    node.test = self.visit(node.test)
    node.body = self._stmts(node.body)
    return node

  def visit_Try(self, node):
    node.body = self._stmts(node.body)
    for h in node.handlers:
      if isinstance(h.type, ast.Name) and h.type.id == 'StopIteration':
        h.type = ast.Tuple([ast.Name('__vp_StopIteration', ast.Load()), ast.Name('__vp_RealStopIteration', ast.Load())], ast.Load())
      h.body = self._stmts(h.body)
    node.orelse = self._stmts(node.orelse)
    node.finalbody = self._stmts(node.finalbody)
    return node

  def visit_With(self, node):
    if len(node.items) != 1:
      node.body = self._stmts(node.body)
      return node
    item = node.items[0]
    body = self._stmts(node.body)
    lk = '__vp_lk%d' % node.lineno
    src = textwrap.dedent(f'''
    {lk} = None
    if isinstance({lk}, __vp_VLock):
      yield from {lk}.vacquire(__vp_tid())
      try:
        pass
      finally:
        {lk}.vrelease()
    else:
      with {lk}:
        pass
    ''')
    tmpl = ast.parse(src).body
    tmpl[0].value = self.visit(item.context_expr)
    iff = tmpl[1]
    iff.body[1].body = body
    iff.orelse[0].body = copy.deepcopy(body)
    if item.optional_vars is not None:
      iff.orelse[0].items[0].optional_vars = item.optional_vars
    for n in tmpl:
      ast.copy_location(n, node)
      ast.fix_missing_locations(n)
    return tmpl


def yieldify(fn, names, tid_fn, cls=None, extra_globals=None):
  """Returns a generator function equivalent to fn with a scheduling point before every statement."""
  fn = getattr(fn, '__func__', fn)
  src = textwrap.dedent(inspect.getsource(fn))
  filename = inspect.getsourcefile(fn)
  tree = ast.parse(src)
  fdef = tree.body[0]
  fdef._vp_top = True        # pylint: disable=protected-access
  fdef.decorator_list = []
  ast.increment_lineno(tree, fn.__code__.co_firstlineno - 1)
  tree = _T(set(names), filename).visit(tree)
  ast.fix_missing_locations(tree)
  # the function must be a generator even if it has no statement (it always has)
  g = dict(fn.__globals__)
  g.update(__vp_call=_vp_call, __vp_VLock=VLock, __vp_tid=tid_fn, __vp_cls=cls, __vp_StopIteration=VPStopIteration,
           __vp_RealStopIteration=StopIteration)
  g.update(extra_globals or {})
  code = compile(tree, filename, 'exec')
  ns = {}
  exec(code, g, ns)      # pylint: disable=exec-used
  new = ns[fdef.name]
  new.__vp__ = True
  _VP_CODES.add(new.__code__)
  new.__vp_source__ = (filename, fn.__code__.co_firstlineno, fn.__qualname__)
  return new
